#!/usr/bin/env python3
"""seeded_matrix.py [ids...]   run the quick check of each seeded change's property against a scratch copy of /repo/src
with the change applied (never /repo itself), and record the outcome in seeded/<id>/meta.json.
env: JOBS (parallel patches, default 3), ALLPROPS=1 to also run every other claimed check (cross-detection)."""
import json, os, re, shutil, subprocess, sys, tempfile, time
from concurrent.futures import ThreadPoolExecutor
VERIF = os.path.dirname(os.path.dirname(os.path.abspath(__file__)))
SEEDED = os.path.join(VERIF, "seeded")
CLAIMED = ["C10", "C11", "C12", "C13", "C14", "C15", "C16", "C17", "C19"]
NEEDS = json.load(open(os.path.join(SEEDED, "needs.json"))) if os.path.exists(os.path.join(SEEDED, "needs.json")) else {}


def one(sid):
    d = os.path.join(SEEDED, sid)
    prop = sid.split("_")[0]
    props = [prop] + ([p for p in CLAIMED if p != prop] if os.environ.get("ALLPROPS") else [])
    root = tempfile.mkdtemp(prefix="seedmx", dir="/var/tmp")
    results = {}
    try:
        shutil.copytree("/repo/src", os.path.join(root, "src"), ignore=shutil.ignore_patterns("*.o", "*.lo", ".libs", ".deps", "*.la"))
        p = subprocess.run(["patch", "-p1", "-s", "-d", root, "-i", os.path.join(d, "patch.diff")], stdout=subprocess.PIPE, stderr=subprocess.STDOUT, text=True)
        if p.returncode != 0:
            return sid, {"error": "patch failed: " + p.stdout[-300:]}
        for pr in props:
            out = os.path.join(root, "out_" + pr)
            os.makedirs(out)
            env = dict(os.environ, VERIF_REPO=root, VERIF_OUT=out)
            t0 = time.time()
            r = subprocess.run([sys.executable, os.path.join(VERIF, "run_check.py"), pr, "--tier", "quick"], stdout=subprocess.PIPE, stderr=subprocess.STDOUT, text=True, env=env)
            lines = r.stdout.split("\n")
            det = [l.strip()[:300] for l in lines if l.startswith("  ")][:3]
            nviol = sum(1 for l in lines if l.startswith("VIOLATION property=" + pr))
            reps = []
            rd = os.path.join(out, "replays")
            for f in sorted(os.listdir(rd)) if os.path.isdir(rd) else []:
                if f.endswith(".plan") and not f.startswith(".") and not f.endswith(".full.plan"):
                    txt = open(os.path.join(rd, f)).read()
                    m = re.search(r"# steps_before=(\d+)\n# steps_after=(\d+)\n# probes=(\d+)", txt)
                    h = re.search(r"# history_plans_after=(\d+)", txt)
                    if m:
                        reps.append({"steps_before": int(m.group(1)), "steps_after": int(m.group(2)), "probes": int(m.group(3)), "history_plans": int(h.group(1)) if h else 0})
            results[pr] = {"exit": r.returncode, "violation_lines": nviol, "caught": r.returncode == 1 and nviol > 0, "first_findings": det, "minimised_replays": reps[:3], "wall_s": round(time.time() - t0)}
    finally:
        shutil.rmtree(root, ignore_errors=True)
    confirm = open(os.path.join(d, "confirm.txt")).read().strip() if os.path.exists(os.path.join(d, "confirm.txt")) else ""
    meta = {
        "id": sid, "breaks_property": prop,
        "needs_to_manifest": NEEDS.get(sid, "see README.md"),
        "origin": "written by an independent sub-agent that was given only the text of the property and its own scratch worktree of /repo (nothing from /verif)",
        "confirmed_by_me": {"how": "scratch worktree /tmp/wt_%s: git apply patch.diff; make -j8; make -k check -j8; demo; git checkout -- .; make -j8; demo" % prop, "result": confirm},
        "checks_run": {"how": "patch applied to a scratch copy of /repo/src under /var/tmp (VERIF_REPO override; /repo itself untouched), then python3 run_check.py <P> --tier quick", "results": results},
        "caught_by_own_property_check": results.get(prop, {}).get("caught", False),
    }
    json.dump(meta, open(os.path.join(d, "meta.json"), "w"), indent=1, sort_keys=True)
    return sid, results


if __name__ == "__main__":
    ids = sys.argv[1:] or sorted(x for x in os.listdir(SEEDED) if os.path.isdir(os.path.join(SEEDED, x)))
    with ThreadPoolExecutor(int(os.environ.get("JOBS", "3"))) as ex:
        for sid, res in ex.map(one, ids):
            for pr, r in res.items():
                if isinstance(r, dict):
                    print(sid, pr, "CAUGHT" if r.get("caught") else "missed(exit=%s)" % r.get("exit"), (r.get("first_findings") or [""])[0][:150], flush=True)
                else:
                    print(sid, pr, r)
