#!/usr/bin/env python3
"""try_patch.py <patch.diff> <PROP> [<PROP> ...]   (env VERIF_SCALE, TIER)
Applies the patch to a scratch copy of /repo/src outside /repo and /verif, runs the quick checks of the given
properties against it (VERIF_REPO / VERIF_OUT overrides), prints one summary line per property, removes the copy."""
import os, re, shutil, subprocess, sys, tempfile, time
VERIF = os.path.dirname(os.path.dirname(os.path.abspath(__file__)))
patch, props = sys.argv[1], sys.argv[2:]
root = tempfile.mkdtemp(prefix="trypatch", dir="/var/tmp")
try:
    shutil.copytree("/repo/src", os.path.join(root, "src"), ignore=shutil.ignore_patterns("*.o", "*.lo", ".libs", ".deps", "*.la"))
    p = subprocess.run(["patch", "-p1", "-s", "-d", root, "-i", os.path.abspath(patch)], stdout=subprocess.PIPE, stderr=subprocess.STDOUT, text=True)
    if p.returncode != 0:
        print("PATCH-FAILED", p.stdout[-400:]); sys.exit(3)
    for prop in props:
        out = os.path.join(root, "out_" + prop); os.makedirs(out)
        env = dict(os.environ, VERIF_REPO=root, VERIF_OUT=out)
        t0 = time.time()
        r = subprocess.run([sys.executable, os.path.join(VERIF, "run_check.py"), prop, "--tier", os.environ.get("TIER", "quick")], stdout=subprocess.PIPE, stderr=subprocess.STDOUT, text=True, env=env)
        lines = r.stdout.split("\n")
        det = [l.strip()[:260] for l in lines if l.startswith("  ")][:4]
        notes = [l[:160] for l in lines if l.startswith("NOTE")][:6]
        nv = sum(1 for l in lines if l.startswith("VIOLATION"))
        print("%s %s exit=%d violations=%d %.0fs" % (os.path.basename(os.path.dirname(os.path.abspath(patch))), prop, r.returncode, nv, time.time() - t0))
        for d in det: print("     ", d)
        if r.returncode != 1:
            for n in notes: print("     ", n)
            for l in lines:
                if "HARNESS" in l: print("     ", l[:300])
        # keep minimised replay sizes
        for f in sorted(os.listdir(os.path.join(out, "replays"))) if os.path.isdir(os.path.join(out, "replays")) else []:
            if f.endswith(".plan") and not f.endswith(".full.plan"):
                txt = open(os.path.join(out, "replays", f)).read()
                m = re.search(r"# steps_before=(\d+)\n# steps_after=(\d+)\n# probes=(\d+)", txt)
                if m: print("      replay %s: %s -> %s steps, %s probes" % (f, m.group(1), m.group(2), m.group(3)))
finally:
    shutil.rmtree(root, ignore_errors=True)
