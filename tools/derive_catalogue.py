#!/usr/bin/env python3
"""One-off derivation of data/catalogue.txt at the pinned commit (output committed and hand-reviewed;
the checks read the frozen file, never re-derive it from a tree under test).

For every class registered in get_list_mms (default configuration, no MetaPhysicL): catalogue name and
dimension from its constructor, and the set of public evaluator overloads it documents, expressed at API
level: masa_eval_<short>/<sig> is documented iff the class declares the virtual of the documented name
and arity (see tools/gen_evaltab.py for the API -> virtual naming rule).
"""
import re
src='/repo/src/'
hdr=open(src+'masa_internal.h').read()+open(src+'smasa.h').read()
core=open(src+'masa_core.cpp').read()
# registered classes (outside HAVE_METAPHYSICL)
reg=core[core.index('int get_list_mms'):core.index('// Instantiations for every precision')]
reg=re.sub(r'#ifdef HAVE_METAPHYSICL.*?#endif','',reg,flags=re.S)
classes=re.findall(r'new (\w+)<Scalar>\(\)',reg)
# evaluator table
evs=[]
for m in re.finditer(r'\{(\d+), "(\w+)", "(\w+)", "(\w+)", "(\w*)"\}',open('/verif/sim/evaltab.inc').read()):
    evs.append((int(m.group(1)),m.group(2),m.group(3),m.group(4)))
def sig_of(args):
    a=re.sub(r'\s+','',args)
    a=re.sub(r'Scalar\w+','Scalar',a)   # drop parameter names
    a=re.sub(r'int\w+','int',a)
    if a=='': return 'v'
    if a=='int': return 'i'
    if a.startswith('Scalar,Scalar(*'): return 'cb'
    parts=a.split(',')
    n=parts.count('Scalar')
    return str(n)+('i' if parts[-1]=='int' else '')
allsrc=''.join(open(src+f).read() for f in ['heat.cpp','euler.cpp','cns.cpp','sod.cpp','axi_euler.cpp','axi_cns.cpp','rans_sa.cpp','euler_chem.cpp','euler_transient.cpp','radiation.cpp','fans_sa.cpp','ablation.cpp','cp_normal.cpp','nsctpl.cpp','laplace.cpp','burgers_equation.cpp','euler_transient_2d.cpp','euler_transient_3d.cpp','axi_euler_transient.cpp','axi_cns_transient.cpp','masa_class.cpp'])
lines=[]
for c in classes:
    m=re.search(r'class\s+'+c+r'\s*:\s*public\s+(?:MASA::)?manufactured_solution<Scalar>(.*?)\n\s*\};',hdr,re.S)
    body=re.sub(r'//.*','',m.group(1))
    decl=set()
    for f,a in re.findall(r'Scalar\s+(eval_\w+)\s*\(((?:[^()]|\([^()]*\))*)\)',body):
        decl.add((f,sig_of(a)))
    cm=re.search(c+r'<Scalar>::'+c+r'\s*\(\)(.*?)\n\}',allsrc,re.S)
    name=re.search(r'mmsname\s*=\s*"(\w+)"',cm.group(1)).group(1)
    dim=int(re.search(r'dimension\s*=\s*(\d)',cm.group(1)).group(1))
    caps=[ '%s/%s'%(s,g) for (i,s,g,v) in evs if (v,g) in decl ]
    # base virtual eval_g_t(Scalar) has sig '1' like the others
    lines.append((name,dim,caps,c))
with open('/verif/data/catalogue.txt','w') as f:
    f.write('# frozen catalogue facts at the pinned commit (see tools/derive_catalogue.py, DESIGN.md 2.2)\n')
    f.write('# solution <catalogue name> <dimension> <fixture 0|1> <documented evaluators: short/sig ...>\n')
    f.write('# avoid <catalogue name> <short/sig>: declared but deliberately fatal (test hook), never called by the simulator\n')
    for name,dim,caps,c in lines:
        fx = 1 if name in ('masa_test_function','masa_uninit') else 0
        if name=='sod_1d': caps=[c for c in caps if c!='source_t/1']   # hand edit: test-only fatal hook
        f.write('solution %s %d %d %s\n'%(name,dim,fx,' '.join(caps)))
    f.write('avoid sod_1d source_t/1\n')
for name,dim,caps,c in lines: print(name,dim,len(caps))
