#!/usr/bin/env python3
"""Replay a violation file produced by run_check.py:  replay.py <file> [--trace]
Rebuilds the variant named in the file's header from /repo's current tree and executes the plan in a fresh process.
Exit 1 if the recorded violation (or crash) reproduces, 0 if not."""
import os, re, subprocess, sys
VERIF = os.path.dirname(os.path.abspath(__file__))
sys.path.insert(0, VERIF)
import build as simbuild
path = sys.argv[1]
hdr = dict(re.findall(r"^# (\w+)=(.*)$", open(path).read(), re.M))
variant = hdr.get("variant", "exc.plain")
if variant not in simbuild.VARIANTS:
    variant = "exc.plain"
exe = simbuild.build(variant)
cmd = [exe, "--data", os.path.join(VERIF, "data"), "--replay", path] + (["--trace"] if "--trace" in sys.argv else [])
env = dict(os.environ, ASAN_OPTIONS="exitcode=77:detect_leaks=0:allocator_may_return_null=1")
p = subprocess.run(cmd, env=env)
sys.exit(0 if p.returncode == 0 else 1)
