#!/usr/bin/env python3
"""Replay a violation file produced by run_check.py:  replay.py <file> [--trace]
Rebuilds the variant named in the file's header from /repo's current tree and executes the plan(s) in a fresh process
(a file may hold several plans: the earlier ones are the history of the worker process, see DESIGN.md 4.5).
Exit 1 if the run ends in a violation or dies (crash, sanitizer or memcheck report), 0 if it is clean."""
import os, re, subprocess, sys
VERIF = os.path.dirname(os.path.abspath(__file__))
sys.path.insert(0, VERIF)
import build as simbuild
path = sys.argv[1]
hdr = dict(re.findall(r"^# (\w+)=(.*)$", open(path).read(), re.M))
variant = hdr.get("variant", "exc.plain")
valgrind = "valgrind" in variant
bvariant = variant.replace("valgrind", "plain")
if bvariant not in simbuild.VARIANTS:
    bvariant = "exc.plain"
exe = simbuild.build(bvariant)
cmd = [exe, "--data", os.path.join(VERIF, "data"), "--replay", path] + (["--trace"] if "--trace" in sys.argv else [])
if valgrind:
    cmd = ["valgrind", "-q", "--error-exitcode=78", "--exit-on-first-error=yes", "--leak-check=full", "--errors-for-leak-kinds=definite", "--num-callers=12"] + cmd
env = dict(os.environ, ASAN_OPTIONS="exitcode=77:detect_leaks=0:allocator_may_return_null=1")
p = subprocess.run(cmd, env=env)
sys.exit(0 if p.returncode == 0 else 1)
