// Plans: the explicit, serialisable object that is executed, stored, minimised and replayed.
#ifndef SIM_PLAN_H
#define SIM_PLAN_H
#include "sim_util.h"

enum Op {
  OP_INIT = 0,      // h: handle of the client, a: solution index, s: (decorated) solution-name string passed verbatim
  OP_SELECT,        // h
  OP_LIST,
  OP_GET_NAME,
  OP_GET_DIM,
  OP_PRINTID,
  OP_SET,           // a: parameter index (mod #params); b: 0 admissible (c = factor index) / 1 wild (val)
  OP_GET,           // a
  OP_SET_UNKNOWN,   // a: unknown-name index, val
  OP_GET_UNKNOWN,   // a
  OP_INIT_PARAM,
  OP_PURGE,
  OP_SANITY,
  OP_DISPLAY_PARAM,
  OP_DISPLAY_VEC,
  OP_SET_VEC,       // a: vector index (mod #vectors), len, u: value seed
  OP_GET_VEC,       // a
  OP_GET_VEC_UNKNOWN,  // a: unknown-name index
  OP_SET_VEC_UNKNOWN,  // a, len, u
  OP_EVAL,          // a: evaluator id, b: point index, k: direction / moment order, c: callback kind; nested steps (callback yield)
  OP_EVAL_SUP,      // a: index into the documented evaluators of the current solution (mod), rest as OP_EVAL
  OP_EVAL_UNSUP,    // a: index into the undocumented evaluators of the current solution (mod), rest as OP_EVAL
  OP_PASS_FUNC,     // c: callback kind, val; nested steps
  OP_MIRROR,        // b: mirror kind, a: index (evaluator / parameter), k, u
  OP_TWIN,          // clone the current instance into a fresh handle and re-evaluate its recent evaluations
  OP_AUDIT,
  OP_SWEEP,         // every documented evaluator at an interior point (only in post-init state)
  OP_SELECT_UNKNOWN,   // s: handle string that is (normally) not registered
  OP_INIT_UNKNOWN,     // h, s: a string that does not normalise to a catalogue name
  OP_PREINIT_CALL,     // a: function index; executed only while the client's registry has no selection
  OP_EXIT_HERE,        // fork; the copy calls exit(0): static destruction on this registry state
  OP_WALK_UNSUP,       // every undocumented evaluator of the current solution (stratified API walk, enumeration)
  OP_FRESH,            // re-evaluate recent evaluations of the current instance in a fresh process (same parameters)
  OP__COUNT
};
static const char* const g_opnames[OP__COUNT] = {
    "INIT", "SELECT", "LIST", "GET_NAME", "GET_DIM", "PRINTID", "SET", "GET", "SET_UNKNOWN", "GET_UNKNOWN",
    "INIT_PARAM", "PURGE", "SANITY", "DISPLAY_PARAM", "DISPLAY_VEC", "SET_VEC", "GET_VEC", "GET_VEC_UNKNOWN",
    "SET_VEC_UNKNOWN", "EVAL", "EVAL_SUP", "EVAL_UNSUP", "PASS_FUNC", "MIRROR", "TWIN", "AUDIT", "SWEEP",
    "SELECT_UNKNOWN", "INIT_UNKNOWN", "PREINIT_CALL", "EXIT_HERE", "WALK_UNSUP", "FRESH"};

struct Step {
  int op = OP_LIST;
  int client = 0;
  int h = 0;
  int a = 0, b = 0, c = 0, k = 1;
  uint64_t u = 0;
  int len = 0;
  double val = 0;
  double x[4] = {0, 0, 0, 0};
  std::string s;
  std::vector<Step> nested;
};
struct Client {
  int prec = 0;  // 0 double, 1 long double
  int lang = 0;  // 0 C++ templates, 1 C ABI (implies double)
  std::vector<std::string> handles;
};
struct Plan {
  uint64_t seed = 0;
  std::string profile = "GEN";
  int alloc_mode = 0;
  uint64_t alloc_seed = 1;
  int racy = 0;
  std::vector<Client> clients;
  std::vector<Step> steps;
};

static std::string hexf(double v) {
  char b[64];
  snprintf(b, sizeof b, "%a", v);
  return b;
}
static void write_step(std::string& o, const Step& s, int depth) {
  char b[512];
  snprintf(b, sizeof b, "step %d %s c=%d h=%d a=%d b=%d cb=%d k=%d u=%llu len=%d val=%s x=%s,%s,%s,%s s=", depth, g_opnames[s.op],
           s.client, s.h, s.a, s.b, s.c, s.k, (unsigned long long)s.u, s.len, hexf(s.val).c_str(), hexf(s.x[0]).c_str(),
           hexf(s.x[1]).c_str(), hexf(s.x[2]).c_str(), hexf(s.x[3]).c_str());
  o += b;
  o += pct_encode(s.s);  // arbitrarily long
  o += "\n";
  for (const Step& n : s.nested) write_step(o, n, depth + 1);
}
static std::string plan_to_text(const Plan& p) {
  std::string o = "simplan 1\n";
  char b[256];
  snprintf(b, sizeof b, "seed %llu\nprofile %s\nalloc %d %llu\nracy %d\n", (unsigned long long)p.seed,
           p.profile.c_str(), p.alloc_mode, (unsigned long long)p.alloc_seed, p.racy);
  o += b;
  for (size_t i = 0; i < p.clients.size(); ++i) {
    snprintf(b, sizeof b, "client %zu %d %d %zu", i, p.clients[i].prec, p.clients[i].lang, p.clients[i].handles.size());
    o += b;
    for (const std::string& h : p.clients[i].handles) o += " " + pct_encode(h);
    o += "\n";
  }
  for (const Step& s : p.steps) write_step(o, s, 0);
  o += "end\n";
  return o;
}
static std::vector<std::string> split_ws(const std::string& s) {
  std::vector<std::string> v;
  size_t i = 0;
  while (i < s.size()) {
    while (i < s.size() && s[i] == ' ') ++i;
    size_t j = i;
    while (j < s.size() && s[j] != ' ') ++j;
    if (j > i) v.push_back(s.substr(i, j - i));
    i = j;
  }
  return v;
}
static int op_from_name(const std::string& n) {
  for (int i = 0; i < OP__COUNT; ++i)
    if (n == g_opnames[i]) return i;
  sim_die(("unknown op in plan: " + n).c_str());
}
// Lines starting with '#' are metadata for the orchestrator and are ignored here.
static bool plan_from_text(const std::string& text, Plan& p) {
  p = Plan();
  std::vector<std::string> lines = split_lines(text);
  std::vector<Step*> stack;  // parents by depth
  bool header = false;
  for (const std::string& ln : lines) {
    if (ln.empty() || ln[0] == '#') continue;
    std::vector<std::string> t = split_ws(ln);
    if (t.empty()) continue;
    if (t[0] == "simplan") header = true;
    else if (t[0] == "seed" && t.size() >= 2) p.seed = strtoull(t[1].c_str(), nullptr, 10);
    else if (t[0] == "profile" && t.size() >= 2) p.profile = t[1];
    else if (t[0] == "alloc" && t.size() >= 3) {
      p.alloc_mode = atoi(t[1].c_str());
      p.alloc_seed = strtoull(t[2].c_str(), nullptr, 10);
    } else if (t[0] == "racy" && t.size() >= 2) p.racy = atoi(t[1].c_str());
    else if (t[0] == "client" && t.size() >= 5) {
      Client c;
      c.prec = atoi(t[2].c_str());
      c.lang = atoi(t[3].c_str());
      size_t nh = (size_t)atoi(t[4].c_str());
      for (size_t i = 0; i < nh && 5 + i < t.size(); ++i) c.handles.push_back(pct_decode(t[5 + i]));
      p.clients.push_back(c);
    } else if (t[0] == "step" && t.size() >= 3) {
      int depth = atoi(t[1].c_str());
      Step s;
      s.op = op_from_name(t[2]);
      for (size_t i = 3; i < t.size(); ++i) {
        size_t eq = t[i].find('=');
        if (eq == std::string::npos) continue;
        std::string k = t[i].substr(0, eq), v = t[i].substr(eq + 1);
        if (k == "c") s.client = atoi(v.c_str());
        else if (k == "h") s.h = atoi(v.c_str());
        else if (k == "a") s.a = atoi(v.c_str());
        else if (k == "b") s.b = atoi(v.c_str());
        else if (k == "cb") s.c = atoi(v.c_str());
        else if (k == "k") s.k = atoi(v.c_str());
        else if (k == "u") s.u = strtoull(v.c_str(), nullptr, 10);
        else if (k == "len") s.len = atoi(v.c_str());
        else if (k == "val") s.val = strtod(v.c_str(), nullptr);
        else if (k == "s") s.s = pct_decode(v);
        else if (k == "x") {
          size_t pos = 0;
          for (int j = 0; j < 4; ++j) {
            size_t cm = v.find(',', pos);
            std::string part = v.substr(pos, cm == std::string::npos ? std::string::npos : cm - pos);
            s.x[j] = strtod(part.c_str(), nullptr);
            if (cm == std::string::npos) break;
            pos = cm + 1;
          }
        }
      }
      if (depth == 0) {
        p.steps.push_back(s);
        stack.assign(1, &p.steps.back());
      } else {
        if ((int)stack.size() < depth) return false;
        stack.resize((size_t)depth);
        Step* par = stack[(size_t)depth - 1];
        par->nested.push_back(s);
        stack.push_back(&par->nested.back());
      }
      // pointers into p.steps stay valid only until the next push_back at depth 0, which resets the stack
    } else if (t[0] == "end") break;
  }
  return header;
}
static uint64_t plan_hash(const Plan& p) {
  Fnv f;
  f.str(plan_to_text(p));
  return f.h;
}
static size_t count_steps(const std::vector<Step>& v) {
  size_t n = 0;
  for (const Step& s : v) n += 1 + count_steps(s.nested);
  return n;
}
#endif
