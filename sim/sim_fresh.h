// "Fresh history" oracle (restart with only the durable state): a zygote process is forked before the simulator
// makes its first library call and stays pristine.  On request it forks a grandchild that initialises ONE solution,
// gives it the requested parameters through the public API, evaluates ONE evaluator and reports the bits.  Whatever
// an evaluation in a long session returns must be bit-identical to that, because nothing but the parameters may carry
// information (C10).  This is the only oracle that can see state that outlives a run inside a worker process
// (function-local statics, caches keyed by object address, stream state).
#ifndef SIM_FRESH_H
#define SIM_FRESH_H
#include "sim_exec.h"
#include <sys/socket.h>
#include <fcntl.h>

static int g_zyg_fd = -1;

static bool io_write_all(int fd, const void* p, size_t n) {
  const char* c = (const char*)p;
  while (n > 0) {
    ssize_t r = write(fd, c, n);
    if (r <= 0) return false;
    c += r;
    n -= (size_t)r;
  }
  return true;
}
static bool io_read_all(int fd, void* p, size_t n) {
  char* c = (char*)p;
  while (n > 0) {
    ssize_t r = read(fd, c, n);
    if (r <= 0) return false;
    c += r;
    n -= (size_t)r;
  }
  return true;
}

struct FreshReq {
  int prec = 0, ev = 0, k = 0, cbkind = 0;
  std::string sol;
  long double x[4] = {0, 0, 0, 0};
  std::vector<std::pair<std::string, long double>> p;
  std::vector<std::pair<std::string, std::vector<long double>>> v;
};
static void put_str(std::string& o, const std::string& s) {
  uint32_t n = (uint32_t)s.size();
  o.append((const char*)&n, 4);
  o += s;
}
static void put_ld(std::string& o, long double v) {
  char raw[16];
  memset(raw, 0, 16);
  memcpy(raw, &v, 10);  // the 10 significant bytes of the x87 format; the padding is indeterminate
  o.append(raw, 16);
}
static std::string fresh_encode(const FreshReq& r) {
  std::string o;
  int hdr[4] = {r.prec, r.ev, r.k, r.cbkind};
  o.append((const char*)hdr, sizeof hdr);
  put_str(o, r.sol);
  for (int i = 0; i < 4; ++i) put_ld(o, r.x[i]);
  uint32_t np = (uint32_t)r.p.size(), nv = (uint32_t)r.v.size();
  o.append((const char*)&np, 4);
  for (auto& kv : r.p) {
    put_str(o, kv.first);
    put_ld(o, kv.second);
  }
  o.append((const char*)&nv, 4);
  for (auto& kv : r.v) {
    put_str(o, kv.first);
    uint32_t n = (uint32_t)kv.second.size();
    o.append((const char*)&n, 4);
    for (long double x : kv.second) put_ld(o, x);
  }
  return o;
}
struct Cursor {
  const std::string& s;
  size_t i = 0;
  explicit Cursor(const std::string& s_) : s(s_) {}
  void raw(void* p, size_t n) {
    if (i + n > s.size()) sim_die("short fresh request");
    memcpy(p, s.data() + i, n);
    i += n;
  }
  std::string str() {
    uint32_t n;
    raw(&n, 4);
    if (i + n > s.size()) sim_die("short fresh request");
    std::string o = s.substr(i, n);
    i += n;
    return o;
  }
  long double ld() {
    char rawb[16];
    raw(rawb, 16);
    long double v = 0;
    memcpy(&v, rawb, 10);
    return v;
  }
};
static FreshReq fresh_decode(const std::string& s) {
  FreshReq r;
  Cursor c(s);
  int hdr[4];
  c.raw(hdr, sizeof hdr);
  r.prec = hdr[0];
  r.ev = hdr[1];
  r.k = hdr[2];
  r.cbkind = hdr[3];
  r.sol = c.str();
  for (int i = 0; i < 4; ++i) r.x[i] = c.ld();
  uint32_t np, nv;
  c.raw(&np, 4);
  for (uint32_t i = 0; i < np; ++i) {
    std::string n = c.str();
    long double v = c.ld();
    r.p.push_back(std::make_pair(n, v));
  }
  c.raw(&nv, 4);
  for (uint32_t i = 0; i < nv; ++i) {
    std::string n = c.str();
    uint32_t len;
    c.raw(&len, 4);
    std::vector<long double> v;
    for (uint32_t j = 0; j < len; ++j) v.push_back(c.ld());
    r.v.push_back(std::make_pair(n, v));
  }
  return r;
}

template <typename S>
static Bits fresh_eval(const FreshReq& r) {
  simseam::LibDomain d;  // zero-filled library memory: the reference is a function of the request alone
  MASA::masa_init<S>("fresh", r.sol);
  for (auto& kv : r.p) MASA::masa_set_param<S>(kv.first, (S)kv.second);
  for (auto& kv : r.v) {
    std::vector<S> v(kv.second.begin(), kv.second.end());
    MASA::masa_set_vec<S>(kv.first, v);
  }
  EvalArgs<S> a;
  for (int i = 0; i < 4; ++i) a.x[i] = (S)r.x[i];
  a.k = r.k;
  g_cb = CbCtx();
  g_cb.kind = r.cbkind;
  return bits_of(call_eval_cxx<S>(r.ev, a, CbFn<S>::get()));
}

// Must be called before the first library call of the process.
static void zygote_start() {
  int sv[2];
  if (socketpair(AF_UNIX, SOCK_STREAM, 0, sv) != 0) return;
  fflush(nullptr);
  pid_t pid = fork();
  if (pid < 0) return;
  if (pid > 0) {
    close(sv[1]);
    g_zyg_fd = sv[0];
    fcntl(g_zyg_fd, F_SETFD, FD_CLOEXEC);
    return;
  }
  // ---- zygote
  close(sv[0]);
  int fd = sv[1];
  int devnull = open("/dev/null", O_WRONLY);
  if (devnull >= 0) dup2(devnull, 1);
  signal(SIGPIPE, SIG_IGN);
  for (;;) {
    uint32_t n;
    if (!io_read_all(fd, &n, 4)) _exit(0);
    std::string buf(n, '\0');
    if (!io_read_all(fd, &buf[0], n)) _exit(0);
    int pfd[2];
    if (pipe(pfd) != 0) _exit(0);
    pid_t g = fork();
    if (g == 0) {
      close(pfd[0]);
      signal(SIGALRM, SIG_DFL);
      alarm(25);
      FreshReq r = fresh_decode(buf);
      Bits b;
      try {
        b = r.prec == 0 ? fresh_eval<double>(r) : fresh_eval<long double>(r);
      } catch (...) {
        _exit(9);
      }
      char out[10];
      memcpy(out, &b.lo, 8);
      memcpy(out + 8, &b.hi, 2);
      io_write_all(pfd[1], out, 10);
      _exit(0);
    }
    close(pfd[1]);
    char resp[11];
    memset(resp, 0, sizeof resp);
    bool ok = g > 0 && io_read_all(pfd[0], resp + 1, 10);
    close(pfd[0]);
    int status = 0;
    if (g > 0) waitpid(g, &status, 0);
    resp[0] = (ok && WIFEXITED(status) && WEXITSTATUS(status) == 0) ? 1 : 0;
    if (!io_write_all(fd, resp, 11)) _exit(0);
  }
}

// returns false when no fresh reference could be obtained (no zygote, grandchild aborted)
static bool fresh_request(const FreshReq& r, Bits& out) {
  if (g_zyg_fd < 0) return false;
  std::string payload = fresh_encode(r);
  uint32_t n = (uint32_t)payload.size();
  if (!io_write_all(g_zyg_fd, &n, 4) || !io_write_all(g_zyg_fd, payload.data(), n)) return false;
  char resp[11];
  if (!io_read_all(g_zyg_fd, resp, 11)) return false;
  if (resp[0] != 1) return false;
  memcpy(&out.lo, resp + 1, 8);
  memcpy(&out.hi, resp + 9, 2);
  return true;
}
#endif
