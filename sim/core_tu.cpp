// Registry teardown seam (DESIGN.md section 1): this translation unit REPLACES src/masa_core.cpp in the
// simulator build.  It is masa_core.cpp of the tree under test, verbatim, followed by a function that runs
// the real registry destructor and re-creates the registry in place.  That is possible without a hook in
// /repo because the anonymous-namespace globals are visible inside their own translation unit.
// If the identifiers below are renamed upstream this file stops compiling and the check exits 2 (harness
// fault), never 1.
#include "masa_core.cpp"
#include "seams.h"
#include <new>

namespace simseam {
void reset_registries() {
  LibDomain d;  // frees of the owned objects are library frees
  masa_master_double.~MasterMS<double>();
  new (&masa_master_double) MasterMS<double>();
  masa_master_longdouble.~MasterMS<long double>();
  new (&masa_master_longdouble) MasterMS<long double>();
}
unsigned registry_size_double() { return masa_master_double.size(); }
unsigned registry_size_longdouble() { return masa_master_longdouble.size(); }
}  // namespace simseam
