// Registry teardown seam (DESIGN.md section 1): this translation unit REPLACES src/masa_core.cpp in the
// simulator build.  It is masa_core.cpp of the tree under test, verbatim, followed by a function that runs
// the real registry destructor and re-creates the registry in place.  That is possible without a hook in
// /repo because the anonymous-namespace globals are visible inside their own translation unit.
// If MasterMS / masa_master<Scalar>() are renamed upstream this file stops compiling and the check exits 2
// (harness fault), never 1.
#include "masa_core.cpp"
#include "seams.h"
#include <new>

namespace simseam {
// The registries are reached through the library's own accessor masa_master<Scalar>() (anonymous namespace of this
// translation unit), so the seam also survives a refactoring that turns the two globals into function-local statics.
template <typename Scalar>
static void reset_one() {
  MasterMS<Scalar>& m = masa_master<Scalar>();
  m.~MasterMS<Scalar>();
  new (&m) MasterMS<Scalar>();
}
void reset_registries() {
  LibDomain d;  // frees of the owned objects are library frees
  reset_one<double>();
  reset_one<long double>();
}
unsigned registry_size_double() { return masa_master<double>().size(); }
unsigned registry_size_longdouble() { return masa_master<long double>().size(); }
}  // namespace simseam
