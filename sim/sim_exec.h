// Executor: plan -> API calls on the REAL library, one step at a time, with the reference model and the
// per-step oracles (DESIGN.md 2.1-2.3).  Every oracle carries exactly one property id.
#ifndef SIM_EXEC_H
#define SIM_EXEC_H
#include <masa.h>
#include "seams.h"
#include "sim_plan.h"
#include "sim_model.h"
#include <algorithm>
#include "evaltab.inc"

static bool g_trace = false;
static bool g_trace_mute = false;
#define TRACE(...)                        \
  do {                                    \
    if (g_trace && !g_trace_mute) {       \
      fprintf(g_out, "  | " __VA_ARGS__); \
      fputc('\n', g_out);                 \
      fflush(g_out);                      \
    }                                     \
  } while (0)

#ifdef MASA_EXCEPTIONS
static const bool kExcBuild = true;
#else
static const bool kExcBuild = false;
#endif

enum Outcome { OC_RETURN = 0, OC_ABORT1 = 1, OC_ABORT_OTHER = 2 };
struct CallOut {
  Outcome oc = OC_RETURN;
  int detail = 0;
  std::string out;
};

struct Violation {
  std::string prop, oracle, sig, msg;
  int step = -1;
};

// interior evaluation points (x, y, z, t)
static const double g_points[4][4] = {{0.31, 0.57, 0.43, 0.29},
                                      {0.62, 0.18, 0.77, 0.51},
                                      {0.85, 0.44, 0.12, 0.93},
                                      {0.11, 0.91, 0.66, 0.37}};
static const double g_sod_gamma[6] = {1.4, 1.2, 1.3, 1.5, 1.6, 1.25};
static const char* const g_unknown_names[] = {"nope", "", " ", "A_x ", " A_x", "a_X", "vec_data", "x-bar", "__",
                                              "demo_var_12", "k_00", "Gamma ", "MU", "no-gauss", "L.", "vec_mean_"};
static const int g_num_unknown = (int)(sizeof(g_unknown_names) / sizeof(g_unknown_names[0]));

// ---- user callbacks (the only yield point inside a library call) ----------------------------------
struct Exec;
struct CbCtx {
  Exec* ex = nullptr;
  int kind = 0;
  const Step* step = nullptr;  // nested steps to run at the first invocation
  int invocations = 0;
  int depth = 0;
};
static CbCtx g_cb;
template <typename S>
static S cb_value(int kind, S t) {
  switch (kind % 3) {
    case 0: return S(0.5) * t + S(1);
    case 1: return S(1.3);
    default: return t * t * S(1e-3) + S(0.25);
  }
}
static void cb_yield();
static double cb_d(double t) {
  cb_yield();
  return cb_value<double>(g_cb.kind, t);
}
static long double cb_ld(long double t) {
  cb_yield();
  return cb_value<long double>(g_cb.kind, t);
}
template <typename S>
struct CbFn;
template <>
struct CbFn<double> {
  static double (*get())(double) { return &cb_d; }
};
template <>
struct CbFn<long double> {
  static long double (*get())(long double) { return &cb_ld; }
};

struct Exec {
  const Plan& plan;
  Reg reg[2];
  std::vector<Violation> viols;
  std::map<std::string, long> orc;    // oracle evaluations per property
  std::map<std::string, long> fired;  // fault kinds that actually fired
  std::map<std::string, long> opcount;
  Fnv log;
  bool dry = false;   // second execution of a plan (leak recurrence): record nothing
  bool stop = false;
  int stepno = -1;
  int ninit = 0;
  int twin_counter = 0;
  long evals_sup = 0, evals_unsup = 0, skipped = 0, nsteps = 0;
  std::string step_out;  // stdout captured during the current step
  struct PurEntry {
    Bits first;      // result bits
    int second = 0;  // step of the first evaluation
    uint64_t serial = 0;  // instance that evaluated first
    bool stale = false;  // the evaluating instance had returned these very bits for the same evaluator and arguments
                         // under OTHER parameter values before: if the entry later turns out wrong, that is evidence
                         // that the evaluator did not use the values last set (C11)
  };
  std::map<std::pair<uint64_t, uint64_t>, PurEntry> purity;
  // last result per (instance serial, evaluator, arguments): (parameter-state hash, bits)
  std::map<std::pair<uint64_t, uint64_t>, std::pair<uint64_t, Bits>> lastres;
  uint64_t inst_serial = 0;
  std::string last_name[2];  // parameter name touched last in each registry (isolation probe after a switch)
  struct Defaults {
    std::map<std::string, long double> p0;
    std::map<std::string, std::vector<long double>> v0;
  };
  std::map<std::pair<int, int>, Defaults> first_defaults;
  std::set<uint64_t> states, transitions, covcells;
  long double factors[6];
  const long double* eval_abs = nullptr;  // absolute evaluation point (Twin re-evaluation), else pool point + offset
  bool eval_abs_k = false;                // take the moment order from the step verbatim (Twin/Fresh/order walk)
  bool skip_frame = false;                // order walk: the read-back is done once at the end, not after each call
  Fnv ileave;  // interleaving signature: sequence of (client, op)

  explicit Exec(const Plan& p) : plan(p) {
    Rng r(mix64(p.seed, 0xFAC7085));
    factors[0] = 1.0L;
    for (int i = 1; i < 6; ++i) {
      long double d = 0.02L + (long double)r.u01() * 0.28L;
      factors[i] = r.bern(0.5) ? 1.0L + d : 1.0L - d;
    }
  }

  // ------------------------------------------------------------------ bookkeeping
  void orc_eval(const char* prop) {
    if (!dry) ++orc[prop];
  }
  void viol(const std::string& prop, const std::string& oracle, const std::string& sig, const std::string& msg) {
    if (dry) return;
    Violation v;
    v.prop = prop;
    v.oracle = oracle;
    v.sig = sig;
    v.msg = msg;
    v.step = stepno;
    viols.push_back(v);
    TRACE("VIOLATION %s %s sig=%s :: %s", prop.c_str(), oracle.c_str(), sig.c_str(), msg.c_str());
    if (viols.size() >= 8) stop = true;
  }
  void fire(const char* fault) {
    if (!dry) ++fired[fault];
  }
  void set_owner(const char* owner) {
    strncpy(g_cur_owner, owner, sizeof g_cur_owner - 1);
    g_cur_owner[sizeof g_cur_owner - 1] = 0;
    TRACE("OWNER %s", g_cur_owner);
  }

  // ------------------------------------------------------------------ guarded library call
  template <typename F>
  CallOut call(bool expect_fatal, F f) {
    CallOut co;
    step_out += capture_drain();  // anything pending belongs to the harness' previous observation
#ifdef MASA_EXCEPTIONS
    (void)expect_fatal;
    try {
      simseam::LibDomain d;
      f();
    } catch (int e) {
      co.oc = e == 1 ? OC_ABORT1 : OC_ABORT_OTHER;
      co.detail = e;
    } catch (...) {
      co.oc = OC_ABORT_OTHER;
      co.detail = -999;
    }
#else
    if (expect_fatal) {
      fflush(nullptr);
      pid_t pid = fork();
      if (pid < 0) sim_die("fork failed");
      if (pid == 0) {
        child_prologue(false);
        g_expect_exit = 1;
        {
          simseam::LibDomain d;
          f();
        }
        std::cout.flush();
        fflush(nullptr);
        _exit(42);  // the call returned: no abort happened
      }
      int status = 0;
      if (waitpid(pid, &status, 0) != pid) sim_die("waitpid failed");
      if (WIFEXITED(status)) {
        int c = WEXITSTATUS(status);
        co.detail = c;
        co.oc = c == 42 ? OC_RETURN : c == 1 ? OC_ABORT1 : OC_ABORT_OTHER;
      } else {
        co.detail = -(WIFSIGNALED(status) ? WTERMSIG(status) : 1);
        co.oc = OC_ABORT_OTHER;
      }
      lseek(g_capfd, 0, SEEK_END);  // the child shared the file description; make sure we read all of it
    } else {
      simseam::LibDomain d;
      f();  // an exit() in here is reported by the atexit hook with the running step
    }
#endif
    co.out = capture_drain();
    step_out += co.out;
    return co;
  }
  // An abort where none was expected (only observable in-process in the exception build).
  bool unexpected(const CallOut& co, const char* prop, const char* what) {
    if (co.oc == OC_RETURN) return false;
    orc_eval(prop);
    viol(prop, std::string(prop) + ".unexpected_abort", what, std::string("call aborted (code ") + std::to_string(co.detail) + ") where the model expects success");
    stop = true;
    return true;
  }

  // ------------------------------------------------------------------ API shims (C++ template or C ABI)
  template <typename S>
  static S ms(long double v) {
    return (S)v;
  }
  // admissible value = post-init value x factor; factors 4 and 5 are one-ulp steps of the precision in use, so that
  // "the parameter changed, but only in the last bits" is a frequent event
  template <typename S>
  S admissible(long double d, int c) const {
    int i = ((c % 6) + 6) % 6;
    S f = i == 4 ? S(1) + std::numeric_limits<S>::epsilon() : i == 5 ? S(1) - std::numeric_limits<S>::epsilon() / 2 : (S)factors[i];
    S v = (S)d * f;
    if (d == 0 && i != 0) v = (S)(factors[i] - 1.0L);
    return v;
  }
  template <typename S>
  static const S marker() {
    return S(-12345.67);
  }

  // ------------------------------------------------------------------ observation helpers
  // Compare every scalar and vector parameter of the instance that is currently selected in registry `prec`
  // with the model.  Mismatches are reported under (prop, tag) and the model adopts the real value so that one
  // defect is one report.
  template <typename S>
  bool verify_selected(int prec, Inst& inst, const char* prop, const std::string& tag) {
    bool ok = true;
    orc_eval(prop);
    for (auto& kv : inst.p) {
      S got = S(0);
      const std::string& name = kv.first;
      CallOut co = call(false, [&] { got = MASA::masa_get_param<S>(name); });
      if (unexpected(co, prop, "get_param")) return false;
      if (bits_of(got) != bits_of(ms<S>(kv.second))) {
        viol(prop, tag, g_sols[inst.sol].name + ":" + name,
             "parameter " + name + " reads " + fmt_ld(got) + " but the model holds " + fmt_ld(kv.second));
        kv.second = got;
        if (bits_of(got) == bits_of(marker<S>())) inst.wild.insert(name);
        ok = false;
      }
    }
    for (auto& kv : inst.v) {
      std::vector<S> got;
      const std::string& name = kv.first;
      int rc = -7;
      CallOut co = call(false, [&] { rc = MASA::masa_get_vec<S>(name, got); });
      if (unexpected(co, prop, "get_vec")) return false;
      bool same = rc == 0 && got.size() == kv.second.size();
      for (size_t i = 0; same && i < got.size(); ++i) same = bits_of(got[i]) == bits_of(ms<S>(kv.second[i]));
      if (!same) {
        viol(prop, tag + ".vec", g_sols[inst.sol].name + ":" + name,
             "vector " + name + " (status " + std::to_string(rc) + ", length " + std::to_string(got.size()) +
                 ") differs from the model (length " + std::to_string(kv.second.size()) + ")");
        kv.second.assign(got.begin(), got.end());
        ok = false;
      }
    }
    return ok;
  }
  template <typename S>
  bool verify_current(int prec, const char* prop, const std::string& tag) {
    Reg& R = reg[prec];
    if (!R.has_cur) return true;
    return verify_selected<S>(prec, R.m[R.cur], prop, tag);
  }

  template <typename S>
  bool check_list(int prec, const char* prop, const std::string& tag, bool viaC) {
    Reg& R = reg[prec];
    orc_eval(prop);
    CallOut co = call(false, [&] {
      if (viaC)
        ::masa_list_mms();
      else
        MASA::masa_list_mms<S>();
    });
    if (unexpected(co, prop, "list_mms")) return false;
    // Format-tolerant reading of the listing: a "count" line if there is one, and one line per registered handle that
    // names the handle and, as a whole word, the catalogue name of its solution.  Nothing else about the text is assumed.
    std::vector<std::string> lines = split_lines(co.out);
    long count = -1;
    std::vector<std::string> entries;  // lines that mention a catalogue name as a whole word
    auto mentions = [](const std::string& l, const std::string& word) {
      size_t pos = 0;
      while ((pos = l.find(word, pos)) != std::string::npos) {
        bool lb = pos == 0 || !(isalnum((unsigned char)l[pos - 1]) || l[pos - 1] == '_');
        size_t e = pos + word.size();
        bool rb = e >= l.size() || !(isalnum((unsigned char)l[e]) || l[e] == '_');
        if (lb && rb) return true;
        ++pos;
      }
      return false;
    };
    for (const std::string& l : lines) {
      size_t p = l.find("Number of initialized solutions:");
      if (p != std::string::npos) {
        count = atol(l.c_str() + p + strlen("Number of initialized solutions:"));
        continue;
      }
      for (const Sol& sl : g_sols)
        if (mentions(l, sl.name)) {
          entries.push_back(l);
          break;
        }
    }
    std::vector<char> used(entries.size(), 0);
    std::string missing;
    // longest handles first, so that a handle that is a substring of another one cannot steal its line
    std::vector<std::pair<std::string, std::string>> want;
    for (auto& kv : R.m) want.push_back(std::make_pair(kv.first, g_sols[kv.second.sol].name));
    std::sort(want.begin(), want.end(), [](const std::pair<std::string, std::string>& a, const std::pair<std::string, std::string>& b) {
      return a.first.size() != b.first.size() ? a.first.size() > b.first.size() : a < b;
    });
    for (auto& w : want) {
      bool found = false;
      // prefer the exact documented shape "<handle> : <name>", then any line naming both
      for (int pass = 0; pass < 2 && !found; ++pass)
        for (size_t i = 0; i < entries.size() && !found; ++i) {
          if (used[i]) continue;
          bool ok = pass == 0 ? entries[i] == w.first + " : " + w.second : (mentions(entries[i], w.second) && entries[i].find(w.first) != std::string::npos);
          if (ok) {
            used[i] = 1;
            found = true;
          }
        }
      if (!found) missing += "[" + w.first + " : " + w.second + "]";
    }
    std::string extra;
    for (size_t i = 0; i < entries.size(); ++i)
      if (!used[i]) extra += "[" + entries[i] + "]";
    if ((count >= 0 && count != (long)R.m.size()) || !missing.empty() || !extra.empty()) {
      viol(prop, tag, "list", "masa_list_mms reports count=" + std::to_string(count) + (missing.empty() ? "" : ", does not list " + missing) + (extra.empty() ? "" : ", lists " + extra + " which is not registered") +
                                  "; the registry holds " + std::to_string(R.m.size()) + " handle(s)");
      return false;
    }
    return true;
  }

  // Full read-back of everything observable in one registry.
  template <typename S>
  bool audit_reg(int prec, const char* prop, const std::string& tag) {
    Reg& R = reg[prec];
    bool ok = check_list<S>(prec, prop, tag + ".list", false);
    if (stop) return false;
    if (!R.has_cur) return ok;
    {
      std::string nm;
      CallOut co = call(false, [&] { MASA::masa_get_name<S>(&nm); });
      if (unexpected(co, prop, "get_name")) return false;
      orc_eval(prop);
      if (nm != g_sols[R.m[R.cur].sol].name) {
        viol(prop, tag + ".selection", "selection",
             "selected solution is " + nm + " but the model's selection (" + R.cur + ") is a " + g_sols[R.m[R.cur].sol].name);
        ok = false;
      }
    }
    {
      std::string realcur = R.cur;  // what the library has selected right now
      for (auto& kv : R.m) {
        const std::string h = kv.first;
        if (h != realcur) {
          CallOut co = call(false, [&] { MASA::masa_select_mms<S>(h); });
          if (unexpected(co, prop, "select_mms")) return false;
          realcur = h;
        }
        if (!verify_selected<S>(prec, kv.second, prop, tag + ".param")) ok = false;
        if (stop) return false;
      }
      // restore the selection
      if (realcur != R.cur) {
        const std::string c = R.cur;
        CallOut co = call(false, [&] { MASA::masa_select_mms<S>(c); });
        if (unexpected(co, prop, "select_mms")) return false;
      }
    }
    return ok;
  }
  bool audit(const char* prop, const std::string& tag) {
    bool a = audit_reg<double>(0, prop, tag);
    if (stop) return false;
    bool b = audit_reg<long double>(1, prop, tag);
    return a && b;
  }

  // ------------------------------------------------------------------ fatal-error protocol (C16)
  template <typename F>
  void fatal_protocol(const char* kind, const std::string& what, F prim) {
    set_owner(!strcmp(kind, "F2b_init_unknown_name") ? "C13+C16" : "C16");
    orc_eval("C16");
    CallOut co = call(true, prim);
    TRACE("expected-fatal(%s) %s -> outcome %d detail %d", kind, what.c_str(), (int)co.oc, co.detail);
    log.i32((int)co.oc);
    if (co.oc != OC_ABORT1) {
      viol("C16", std::string("C16.abort.") + kind, what,
           co.oc == OC_RETURN ? "misuse returned normally instead of aborting with status 1"
                              : "misuse aborted with code " + std::to_string(co.detail) + " instead of 1");
      if (co.oc == OC_RETURN && kExcBuild) stop = true;  // real state may have changed in ways the model cannot follow
    } else {
      fire(kind);
      if (!contains(co.out, "MASA FATAL ERROR"))
        viol("C16", std::string("C16.message.") + kind, what, "abort without a 'MASA FATAL ERROR' line on stdout");
    }
    if (kExcBuild && !stop) {
      size_t before = viols.size();
      audit("C16", std::string("C16.state.") + kind);
      // what the audit reads back is also what C12 promises: the registered handles, the selection, every parameter
      orc_eval("C12");
      for (size_t i = before, n = viols.size(); i < n; ++i) {
        Violation v = viols[i];
        if (v.prop != "C16") continue;
        v.prop = "C12";
        v.oracle = "C12.after_failed_call." + v.oracle.substr(10);
        viols.push_back(v);
      }
    }
  }

  // A C entry point returned normally where the model expects a fatal error.  If the C++ <double> call on the same
  // arguments does abort, the two interfaces differ: that is C17's business too.  (Only called when the library state
  // can still be followed: exception build, or the exit() build where everything ran in forked copies.)
  template <typename F>
  void c_abort_mismatch(size_t first_new_violation, const char* what, F cxx_prim) {
    bool returned = false;
    for (size_t i = first_new_violation; i < viols.size(); ++i)
      if (viols[i].prop == "C16" && viols[i].oracle.compare(0, 10, "C16.abort.") == 0 && contains(viols[i].msg, "returned normally")) returned = true;
    if (!returned || kExcBuild) return;  // in the exception build the C call has already changed the state
    orc_eval("C17");
    CallOut co = call(true, cxx_prim);
    if (co.oc == OC_ABORT1)
      viol("C17", "C17.abort_mismatch", what, std::string("the C ") + what + " returns normally where MASA::" + what + "<double> with the same arguments is a fatal error");
  }

  // ------------------------------------------------------------------ discovery after a successful init
  static std::vector<std::string> parse_display_names(const std::string& out, const char* sep, std::vector<long>* sizes) {
    std::vector<std::string> names;
    for (const std::string& l : split_lines(out)) {
      size_t p = l.find(sep);
      if (p == std::string::npos || p == 0) continue;
      names.push_back(l.substr(0, p));
      if (sizes) sizes->push_back(atol(l.c_str() + p + strlen(sep)));
    }
    return names;
  }

  template <typename S>
  void post_init(int prec, const std::string& handle, const std::string& raw, bool existed, bool viaC) {
    Reg& R = reg[prec];
    Inst& inst = R.m[handle];
    const Sol& sol = g_sols[inst.sol];
    // name and dimension
    {
      std::string nm;
      int dim = -99;
      CallOut co = call(false, [&] {
        MASA::masa_get_name<S>(&nm);
        MASA::masa_get_dimension<S>(&dim);
      });
      if (unexpected(co, "C12", "get_name")) return;
      orc_eval("C14");
      orc_eval("C12");
      if (nm != sol.name) {
        viol("C14", "C14.init.name", sol.name, "after masa_init(\"" + raw + "\") masa_get_name returns " + nm);
        viol("C12", "C12.init.selects", sol.name, "masa_init did not make the new instance the target: name is " + nm);
        if (raw != sol.name) {
          orc_eval("C13");
          viol("C13", "C13.resolve", sol.name, "\"" + raw + "\" resolved to " + nm);
        }
        stop = true;
        return;
      }
      if (raw != sol.name) orc_eval("C13");
      if (viaC) {
        char buf[256];
        memset(buf, 0, sizeof buf);
        strcpy(buf, "caller-buffer-caller-buffer-caller-buffer-caller-buffer");
        CallOut cc = call(false, [&] { ::masa_get_name(buf); });
        if (unexpected(cc, "C14", "get_name")) return;
        buf[255] = 0;
        orc_eval("C17");
        if (sol.name != buf) {
          viol("C17", "C17.get_name", "masa_get_name", std::string("caller's buffer holds \"") + buf + "\" but the solution name is " + sol.name);
          viol("C14", "C14.init.name.c_api", sol.name, std::string("after the C masa_init, the C masa_get_name returns \"") + buf + "\"");
        }
      }
      if (dim != sol.dim)
        viol("C14", "C14.init.dim", sol.name, "masa_get_dimension returns " + std::to_string(dim) + ", documented " + std::to_string(sol.dim));
    }
    // parameter and vector names (observation points named by C11/C14), then exact values
    std::vector<std::string> pn, vn;
    {
      CallOut co = call(false, [&] { MASA::masa_display_param<S>(); });
      if (unexpected(co, "C14", "display_param")) return;
      pn = parse_display_names(co.out, " is set to: ", nullptr);
      CallOut co2 = call(false, [&] { MASA::masa_display_vec<S>(); });
      if (unexpected(co2, "C14", "display_vec")) return;
      vn = parse_display_names(co2.out, " is size: ", nullptr);
    }
    {
      // first read after the init: the parameter name that was touched last through whatever instance was there before
      std::vector<std::string> order;
      const std::string first = last_name[prec];
      if (!first.empty() && std::find(pn.begin(), pn.end(), first) != pn.end()) order.push_back(first);
      for (const std::string& n : pn) order.push_back(n);
      S first_val = S(0);
      for (size_t i = 0; i < order.size(); ++i) {
        const std::string& n = order[i];
        S got = S(0);
        CallOut co = call(false, [&] { got = MASA::masa_get_param<S>(n); });
        if (unexpected(co, "C11", "get_param")) return;
        if (i == 0) first_val = got;
        if (i > 0 && n == order[0] && bits_of(got) != bits_of(first_val)) {
          orc_eval("C12");
          viol("C12", "C12.init.isolation", sol.name + ":" + n,
               "right after masa_init, two reads of " + n + " with no store in between return " + fmt_ld(first_val) + " and " + fmt_ld(got) + " (the first read followed a read of the same name on the previous instance)");
        }
        inst.p0[n] = got;
      }
    }
    for (const std::string& n : vn) {
      std::vector<S> got;
      CallOut co = call(false, [&] { MASA::masa_get_vec<S>(n, got); });
      if (unexpected(co, "C11", "get_vec")) return;
      inst.v0[n].assign(got.begin(), got.end());
    }
    inst.p = inst.p0;
    inst.v = inst.v0;
    inst.wild.clear();
    for (auto& kv : inst.p)
      if (bits_of(ms<S>(kv.second)) == bits_of(marker<S>())) inst.wild.insert(kv.first);
    inst.discovered = true;
    // a fresh instance has the same defaults wherever in a history and on whatever heap it is created
    {
      orc_eval("C14");
      if (existed) orc_eval("C12");
      auto key = std::make_pair(prec, inst.sol);
      auto it = first_defaults.find(key);
      if (it == first_defaults.end()) {
        Defaults d;
        d.p0 = inst.p0;
        d.v0 = inst.v0;
        first_defaults[key] = d;
      } else {
        bool same = it->second.p0.size() == inst.p0.size() && it->second.v0 == inst.v0;
        std::string which;
        if (same)
          for (auto& kv : inst.p0) {
            auto j = it->second.p0.find(kv.first);
            if (j == it->second.p0.end() || bits_of(ms<S>(j->second)) != bits_of(ms<S>(kv.second))) {
              same = false;
              which = kv.first;
              break;
            }
          }
        if (!same) {
          viol("C14", "C14.init.defaults", sol.name + ":" + which, "a later masa_init of " + sol.name + " has other post-init values than the first one");
          if (existed) viol("C12", "C12.reinit.defaults", sol.name + ":" + which, "re-initialised handle does not start from the default parameters");
        }
      }
    }
    if (sol.fixture) return;
    // sanity_check and init_param right after init
    {
      int sc = -99, ip = -99;
      CallOut co = call(false, [&] { sc = viaC ? ::masa_sanity_check() : MASA::masa_sanity_check<S>(); });
      if (unexpected(co, "C14", "sanity_check")) return;
      if (viaC) {
        int sc2 = -99;
        CallOut c2 = call(false, [&] { sc2 = MASA::masa_sanity_check<double>(); });
        if (unexpected(c2, "C14", "sanity_check")) return;
        orc_eval("C17");
        if (sc != sc2) viol("C17", "C17.sanity.status", "sanity_check", "C status " + std::to_string(sc) + " vs C++ " + std::to_string(sc2));
        sc = sc2;
      }
      orc_eval("C14");
      if (sc != 0) viol("C14", "C14.init.sanity", sol.name, "masa_sanity_check returns " + std::to_string(sc) + " right after masa_init");
      CallOut co3 = call(false, [&] { ip = MASA::masa_init_param<S>(); });
      if (unexpected(co3, "C14", "init_param")) return;
      if (ip != 0) viol("C14", "C14.init.initparam", sol.name, "masa_init_param returns " + std::to_string(ip) + " right after masa_init");
      verify_selected<S>(prec, inst, "C11", "C11.initparam.restore");
    }
  }

  // ------------------------------------------------------------------ purity table
  template <typename S>
  std::pair<uint64_t, uint64_t> purity_key(int prec, const Inst& inst, int ev, const EvalArgs<S>& a, int cbkind) {
    Fnv f1, f2;
    f2.h = 0x84222325CBF29CE4ull;
    auto both = [&](const void* p, size_t n) {
      f1.bytes(p, n);
      f2.bytes(p, n);
    };
    both(&prec, 4);
    both(&inst.sol, 4);
    both(&ev, 4);
    const char* sig = g_evals[ev].sig;
    int ns = isdigit((unsigned char)sig[0]) ? sig[0] - '0' : (!strcmp(sig, "cb") ? 1 : 0);
    for (int i = 0; i < ns; ++i) {
      Bits b = bits_of(a.x[i]);
      both(&b.lo, 8);
      both(&b.hi, 2);
    }
    bool usesk = strchr(sig, 'i') != nullptr;
    int k = usesk ? a.k : 0;
    both(&k, 4);
    int cbk = !strcmp(sig, "cb") ? cbkind % 3 : -1;
    both(&cbk, 4);
    for (auto& kv : inst.p) {
      both(kv.first.data(), kv.first.size());
      Bits b = bits_of(ms<S>(kv.second));
      both(&b.lo, 8);
      both(&b.hi, 2);
    }
    for (auto& kv : inst.v) {
      both(kv.first.data(), kv.first.size());
      size_t n = kv.second.size();
      both(&n, sizeof n);
      for (long double x : kv.second) {
        Bits b = bits_of(ms<S>(x));
        both(&b.lo, 8);
        both(&b.hi, 2);
      }
    }
    return std::make_pair(f1.h, f2.h);
  }

  // ------------------------------------------------------------------ step dispatch
  void exec_step(const Step& st, int depth);
  template <typename S>
  void do_step(const Step& st, const Client& cl, int depth);
  template <typename S>
  void do_init(const Step& st, const Client& cl, const std::string& handle, const std::string& raw);
  template <typename S>
  void do_eval(const Step& st, const Client& cl, int ev, int depth);
  template <typename S>
  void do_mirror(const Step& st, const Client& cl);
  template <typename S>
  void do_twin(const Step& st, const Client& cl);
  void do_printid();
  void record_state(const Step& st);
  void run();
};

// ---------------------------------------------------------------------- callback yield
static void cb_yield() {
  ++g_cb.invocations;
  if (g_cb.invocations != 1 || !g_cb.step || !g_cb.ex) return;
  Exec* ex = g_cb.ex;
  const Step* st = g_cb.step;
  int saved = simseam::g_lib_depth;
  simseam::g_lib_depth = 0;  // we are back in caller code
  std::string saved_out = ex->step_out;
  int n = 0;
  for (const Step& ns : st->nested) {
    if (ex->stop) break;
    ex->exec_step(ns, g_cb.depth + 1);
    ++n;
  }
  if (n > 0) ex->fire("F5_callback_preemption");
  (void)saved_out;
  simseam::g_lib_depth = saved;
}

// ---------------------------------------------------------------------- INIT
template <typename S>
void Exec::do_init(const Step& st, const Client& cl, const std::string& handle_in, const std::string& raw_in) {
  (void)st;
  const bool C = cl.lang == 1;
  // a C caller hands over C strings: whatever follows an embedded NUL does not exist for it
  const std::string handle = C ? std::string(handle_in.c_str()) : handle_in;
  const std::string raw = C ? std::string(raw_in.c_str()) : raw_in;
  const int prec = cl.prec;
  Reg& R = reg[prec];
  int solidx = resolve_solution(raw);
  if (solidx < 0) {
    // F2b: a name that does not normalise to a catalogue name is fatal and registers nothing
    orc_eval("C13");
    size_t before = viols.size();
    size_t nv0 = viols.size();
    fatal_protocol("F2b_init_unknown_name", "masa_init", [&] {
      if (C)
        ::masa_init(handle.c_str(), raw.c_str());
      else
        MASA::masa_init<S>(handle, raw);
    });
    if (C && !stop) c_abort_mismatch(nv0, "masa_init", [&] { MASA::masa_init<double>(handle, raw); });
    // the same observations decide C13's "fatal error that registers nothing"
    for (size_t i = before; i < viols.size(); ++i) {
      Violation v = viols[i];
      if (v.prop == "C16") {
        v.prop = "C13";
        v.oracle = "C13.unknown." + v.oracle.substr(4);
        v.sig = "init:" + pct_encode(raw);
        viols.push_back(v);
      }
    }
    return;
  }
  if (ninit >= 10) {
    ++skipped;
    return;
  }
  ++ninit;
  bool existed = R.m.count(handle) > 0;
  bool same_sol = existed && R.m[handle].sol == solidx;
  // what the instance selected until now was asked last (first-call-after-init probe below)
  std::vector<Inst::Recent> prev_recent;
  if (Inst* pc = R.cur_inst()) prev_recent = pc->recent;
  if (existed) fire("F3_reinit_live_handle");
  long long bytes0 = simseam::alloc_stats().live_bytes;
  CallOut co = call(false, [&] {
    if (C)
      ::masa_init(handle.c_str(), raw.c_str());
    else
      MASA::masa_init<S>(handle, raw);
  });
  long long bytes1 = simseam::alloc_stats().live_bytes;
  if (co.oc != OC_RETURN) {
    orc_eval("C13");
    viol("C13", "C13.resolve.abort", g_sols[solidx].name, "masa_init(\"" + raw + "\") aborted although the string normalises to " + g_sols[solidx].name);
    orc_eval("C14");
    viol("C14", "C14.init.abort", g_sols[solidx].name, "masa_init of a catalogue name aborted");
    stop = true;
    return;
  }
  TRACE("init handle='%s' raw='%s' -> %s existed=%d livebytes %+lld", handle.c_str(), raw.c_str(), g_sols[solidx].name.c_str(), (int)existed, bytes1 - bytes0);
  if (existed && R.m[handle].discovered) {
    if (R.grave.size() >= 4) R.grave.erase(R.grave.begin());
    R.grave.push_back(std::make_pair(handle, R.m[handle]));
    R.grave.back().second.recent.clear();
  }
  Inst fresh;
  fresh.sol = solidx;
  fresh.serial = ++inst_serial;
  R.m[handle] = fresh;
  R.has_cur = true;
  R.cur = handle;
  if (same_sol && simseam::alloc_active()) {
    // C19 (iii): replacing an instance by a fresh one of the same type never needs more memory
    orc_eval("C19");
    // a replaced instance that is not released is a whole solution object (>= 2 KB); small bookkeeping is not the
    // property's business, so the threshold is well below the smallest object and well above a map node
    if (bytes1 - bytes0 > 512)
      viol("C19", "C19.growth.reinit", g_sols[solidx].name,
           "re-initialising an existing handle with the same solution grew live library memory by " + std::to_string(bytes1 - bytes0) + " bytes");
  }
  // First call after masa_init (C15): before anything else is asked of the new instance, repeat the evaluator calls
  // that the previously selected instance answered last, where the new solution does not provide them.  State kept
  // outside the instance ("the last answer") must not survive the switch that masa_init performs.
  if (!prev_recent.empty() && (st.u >> 9) % 2 == 0) {
    const Sol& nsol = g_sols[solidx];
    int asked = 0;
    for (auto rit = prev_recent.rbegin(); rit != prev_recent.rend() && asked < 2; ++rit) {
      if (nsol.caps[rit->ev] || nsol.avoid[rit->ev]) continue;
      Step es;
      es.op = OP_EVAL;
      es.client = st.client;
      es.a = rit->ev;
      es.k = rit->k;
      es.c = rit->cbkind;
      es.u = st.u;
      eval_abs = rit->x;
      eval_abs_k = true;
      Client ccl = cl;
      ccl.lang = 0;
      do_eval<S>(es, ccl, rit->ev, 1);
      eval_abs = nullptr;
      eval_abs_k = false;
      ++asked;
      if (stop) return;
    }
  }
  post_init<S>(prec, handle, raw, existed, C);
}

// ---------------------------------------------------------------------- EVAL
template <typename S>
void Exec::do_eval(const Step& st, const Client& cl, int ev, int depth) {
  const bool C = cl.lang == 1;
  const int prec = cl.prec;
  Reg& R = reg[prec];
  const EvalInfo& E = g_evals[ev];
  EvalArgs<S> a;
  for (int i = 0; i < 4; ++i) a.x[i] = eval_abs ? (S)eval_abs[i] : S(g_points[st.b & 3][i]) + S(st.x[i]);
  a.k = st.k;
  const bool iscb = !strcmp(E.sig, "cb");
  const bool hasC = E.cname[0] != 0;
  const bool intsig = !strcmp(E.sig, "i");
  bool nullcb = false;  // a null callback is only ever passed where the solution does not provide the evaluator
  auto prim = [&](bool viaC) -> S {
    if (viaC && hasC) {
      EvalArgs<double> ad;
      for (int i = 0; i < 4; ++i) ad.x[i] = (double)a.x[i];
      ad.k = a.k;
      return (S)call_eval_c(ev, ad, nullcb ? nullptr : &cb_d);
    }
    return call_eval_cxx<S>(ev, a, nullcb ? nullptr : CbFn<S>::get());
  };
  static const int wildk[] = {0, 1, 2, -1, -2, 7, -100, 2147483647, -2147483647 - 1, 40};
  if (!R.has_cur) {
    if (intsig) a.k = wildk[(size_t)((st.k < 0 ? -st.k : st.k) + (int)(st.u % 10)) % 10];  // the check comes before any look at the arguments
    fatal_protocol("F2c_call_before_init", std::string("masa_eval_") + E.shortname, [&] { (void)prim(C); });
    return;
  }
  Inst& inst = R.m[R.cur];
  const Sol& sol = g_sols[inst.sol];
  if (sol.avoid[ev]) {
    ++skipped;
    return;
  }
  const bool supported = sol.caps[ev] != 0;
  if (intsig) {
    if (supported) {
      if (a.k < 0) a.k = -a.k;
      // non-negative orders only (negative ones are outside the documented domain of a provided evaluator): usually 0..8,
      // sometimes anything up to 400, and exactly st.k (up to 4000) when the order walk of SWEEP asks for it
      if (eval_abs_k) a.k = a.k % 4001;
      else if ((st.u >> 24) % 10 == 7) a.k = (int)((st.u >> 28) % 401);
      else a.k %= 9;
    } else {
      a.k = wildk[(size_t)((st.k < 0 ? -st.k : st.k) + (int)(st.u % 10)) % 10];  // "at arbitrary arguments"
    }
  }
  if (iscb && !supported && (st.u >> 20) % 3 == 0) nullcb = true;
  if (supported && !inst.evaluable()) {
    // Outside the admissible pool nothing is claimed about the VALUE (and a fatal error is the library's right), but
    // "evaluating never changes a parameter" has no such restriction.  Marker-state probe: when every inadmissible
    // scalar is exactly the uninitialised marker (the state after masa_purge_default_param, possibly followed by a
    // few stores), the evaluator is called once through C++ and all parameters are read back.  Exception build only
    // (an exit() here would end the worker); solutions with vector parameters are left out (their loop bounds are
    // scalars); the value is neither recorded nor compared.
    bool probe = kExcBuild && depth == 0 && inst.discovered && !sol.fixture && inst.v.empty() && !iscb && (st.u >> 13) % 2 == 0;
    if (probe)
      for (const std::string& n : inst.wild)
        if (bits_of(ms<S>(inst.p[n])) != bits_of(marker<S>())) probe = false;
    if (!probe) {
      ++skipped;
      return;
    }
    CbCtx savedcb0 = g_cb;
    g_cb = CbCtx();
    set_owner("C10");
    S r0 = S(0);
    CallOut cm = call(false, [&] { r0 = prim(false); });
    g_cb = savedcb0;
    (void)r0;
    if (cm.oc != OC_RETURN) {  // inconclusive: the state is outside the documented domain
      if (kExcBuild) stop = true;
      return;
    }
    fire("F9_marker_state_evaluation");
    orc_eval("C10");
    TRACE("eval %s/%s on %s (%s) in a marker state: read-back only", E.shortname, E.sig, R.cur.c_str(), sol.name.c_str());
    verify_selected<S>(prec, inst, "C10", "C10.frame.eval");
    return;
  }
  covcells.insert(mix64((uint64_t)inst.sol * 1000 + (uint64_t)ev, (uint64_t)prec));
  // callback context
  CbCtx savedcb = g_cb;
  g_cb.ex = this;
  g_cb.kind = st.c;
  g_cb.step = (iscb && supported && depth == 0) ? &st : nullptr;
  g_cb.invocations = 0;
  g_cb.depth = depth;
  const std::string curhandle = R.cur;  // nested steps may move the selection
  std::pair<uint64_t, uint64_t> key;
  if (supported) key = purity_key<S>(prec, inst, ev, a, st.c);
  S r = S(0), rc = S(0);
  set_owner(supported ? "C10" : "C15");
  const bool doC = C && hasC;
  auto moved = [&] { return !reg[prec].has_cur || reg[prec].cur != curhandle; };
  CallOut co, co2;
  std::string out_first;
  bool need_cxx = true;
  if (doC) {
    co = call(false, [&] { rc = prim(true); });
    out_first = co.out;
    if (unexpected(co, supported ? "C10" : "C15", E.shortname)) {
      g_cb = savedcb;
      return;
    }
    // The C++ call is the Mirror partner of the C call; it must hit the same instance, and it must not run
    // the nested steps a second time.
    g_cb.step = nullptr;
    if (moved()) need_cxx = false;
  }
  if (need_cxx) {
    co2 = call(false, [&] { r = prim(false); });
    if (unexpected(co2, supported ? "C10" : "C15", E.shortname)) {
      g_cb = savedcb;
      return;
    }
  } else {
    r = rc;
  }
  const bool selection_moved = moved();
  g_cb = savedcb;
  Inst& inst2 = reg[prec].m[curhandle];  // map nodes are stable; the instance under evaluation is never re-initialised by nested steps
  Bits rb = bits_of(r);
  log.u64(rb.lo);
  log.i32(rb.hi);
  TRACE("eval %s/%s on %s (%s) -> %s [%s]%s", E.shortname, E.sig, curhandle.c_str(), sol.name.c_str(), fmt_ld(r).c_str(), fmt_bits(rb).c_str(), supported ? "" : " (undocumented)");
  if (C && hasC && need_cxx) {
    orc_eval("C17");
    if (bits_of(rc) != rb)
      viol("C17", "C17.eval", E.cname, std::string(E.cname) + " returns " + fmt_ld(rc) + " but masa_eval_" + E.shortname + "<double> returns " + fmt_ld(r) + " in the same state");
  }
  if (!supported) {
    ++evals_unsup;
    fire("F4_unsupported_evaluator");
    orc_eval("C15");
    std::string sg = sol.name + ":" + E.shortname + "/" + E.sig;
    if (rb != bits_of(S(-1.33)))
      viol("C15", "C15.sentinel", sg, "undocumented evaluator returned " + fmt_ld(r) + " instead of -1.33");
    const std::string& o = need_cxx ? co2.out : out_first;
    if (!contains(o, "MASA ERROR"))  // also matches "SMASA ERROR"
      viol("C15", "C15.message", sg, "no 'MASA ERROR' / 'SMASA ERROR' line on stdout");
    if (doC && !contains(out_first, "MASA ERROR"))
      viol("C15", "C15.message", sg, "no 'MASA ERROR' / 'SMASA ERROR' line on stdout (C entry point " + std::string(E.cname) + ")");
    if (doC && bits_of(rc) != bits_of(S(-1.33)))
      viol("C15", "C15.sentinel", sg, std::string("undocumented evaluator returned ") + fmt_ld(rc) + " instead of -1.33 through the C entry point " + E.cname);
    if (!selection_moved) verify_selected<S>(prec, inst2, "C15", "C15.frame");
    return;
  }
  ++evals_sup;
  // purity: same (solution, parameters, evaluator, arguments) => same bits, anywhere in the run
  orc_eval("C10");
  orc_eval("C11");
  // staleness evidence: same instance, same evaluator and arguments, other parameter values, identical bits
  bool stale = false;
  {
    Fnv fa;
    fa.i32(ev);
    fa.i32(a.k);
    fa.i32(st.c % 3);
    for (int i = 0; i < 4; ++i) {
      Bits b = bits_of(a.x[i]);
      fa.u64(b.lo);
      fa.i32(b.hi);
    }
    std::pair<uint64_t, uint64_t> lk(inst2.serial, fa.h);
    auto lp = lastres.find(lk);
    if (lp != lastres.end() && lp->second.first != key.first && lp->second.second == rb) stale = true;
    lastres[lk] = std::make_pair(key.first, rb);
  }
  auto it = purity.find(key);
  if (it == purity.end()) {
    PurEntry pe;
    pe.first = rb;
    pe.second = stepno;
    pe.stale = stale;
    pe.serial = inst2.serial;
    purity[key] = pe;
  } else if (it->second.first != rb) {
    viol("C10", "C10.purity", sol.name + ":" + E.shortname + "/" + E.sig,
         "evaluation returns " + fmt_ld(r) + " [" + fmt_bits(rb) + "] but the same solution, parameters and arguments gave [" +
             fmt_bits(it->second.first) + "] at step " + std::to_string(it->second.second));
    if (it->second.serial != inst2.serial) {
      // two INSTANCES holding the same values disagree: something is shared between handles, or one of them is stale
      orc_eval("C12");
      viol("C12", "C12.twin", sol.name + ":" + E.shortname + "/" + E.sig,
           "two handles of " + sol.name + " holding identical parameter values return different bits for the same call: the instances are not independent");
    }
    if (stale || it->second.stale)
      viol("C11", "C11.lastset.stale", sol.name + ":" + E.shortname + "/" + E.sig,
           "an instance kept returning the bits it had returned before its parameters were changed, while an instance holding the same values "
           "returns other bits: the evaluator did not use the values last set");
  }
  if (doC && need_cxx) {
    auto it2 = purity.find(key);
    if (it2 != purity.end() && it2->second.first != bits_of(rc))
      viol("C10", "C10.purity.c_api", sol.name + ":" + E.shortname + "/" + E.sig,
           std::string(E.cname) + " returns " + fmt_ld(rc) + " [" + fmt_bits(bits_of(rc)) + "] but the same solution, parameters and arguments evaluate to [" + fmt_bits(it2->second.first) + "]");
  }
  // evaluating never changes a parameter
  if (!selection_moved && !skip_frame) verify_selected<S>(prec, inst2, "C10", "C10.frame.eval");
  Inst::Recent rc2;
  rc2.ev = ev;
  for (int i = 0; i < 4; ++i) rc2.x[i] = a.x[i];
  rc2.k = a.k;
  rc2.cbkind = st.c;
  if (inst2.recent.size() >= 6) inst2.recent.erase(inst2.recent.begin());
  inst2.recent.push_back(rc2);
}
#endif
