// Utilities: PRNG, hashing, bit patterns, stdout capture, crash attribution.
#ifndef SIM_UTIL_H
#define SIM_UTIL_H
#include <cstdint>
#include <cstdio>
#include <cstdlib>
#include <cstring>
#include <cmath>
#include <string>
#include <vector>
#include <map>
#include <set>
#include <unistd.h>
#include <signal.h>
#include <sys/mman.h>
#include <sys/wait.h>
#include <iostream>

[[noreturn]] static void sim_die(const char* msg) {
  fprintf(stderr, "SIM-HARNESS-FAULT: %s\n", msg);
  fflush(stderr);
  _exit(2);
}

// ------------------------------------------------------------------ PRNG (splitmix64)
struct Rng {
  uint64_t s;
  explicit Rng(uint64_t seed = 0) : s(seed) {}
  uint64_t next() {
    uint64_t z = (s += 0x9E3779B97F4A7C15ull);
    z = (z ^ (z >> 30)) * 0xBF58476D1CE4E5B9ull;
    z = (z ^ (z >> 27)) * 0x94D049BB133111EBull;
    return z ^ (z >> 31);
  }
  int uni(int n) { return n <= 0 ? 0 : (int)(next() % (uint64_t)n); }
  int range(int lo, int hi) { return lo + uni(hi - lo + 1); }
  bool bern(double p) { return (next() >> 11) * (1.0 / 9007199254740992.0) < p; }
  double u01() { return (next() >> 11) * (1.0 / 9007199254740992.0); }
  int pickw(const std::vector<int>& w) {
    long long tot = 0;
    for (int x : w) tot += x;
    if (tot <= 0) return 0;
    long long r = (long long)(next() % (uint64_t)tot);
    for (size_t i = 0; i < w.size(); ++i) {
      if (r < w[i]) return (int)i;
      r -= w[i];
    }
    return (int)w.size() - 1;
  }
};
static inline uint64_t mix64(uint64_t a, uint64_t b) {
  Rng r(a ^ (b * 0xD6E8FEB86659FD93ull + 0x2545F4914F6CDD1Dull));
  return r.next();
}

// ------------------------------------------------------------------ hashing (FNV-1a 64)
struct Fnv {
  uint64_t h = 1469598103934665603ull;
  void bytes(const void* p, size_t n) {
    const unsigned char* b = (const unsigned char*)p;
    for (size_t i = 0; i < n; ++i) {
      h ^= b[i];
      h *= 1099511628211ull;
    }
  }
  void u64(uint64_t v) { bytes(&v, 8); }
  void i32(int v) { bytes(&v, 4); }
  void str(const std::string& s) {
    u64(s.size());
    bytes(s.data(), s.size());
  }
};

// ------------------------------------------------------------------ bit patterns of results
struct Bits {
  uint64_t lo = 0;
  uint16_t hi = 0;
  bool operator==(const Bits& o) const { return lo == o.lo && hi == o.hi; }
  bool operator!=(const Bits& o) const { return !(*this == o); }
};
static inline Bits bits_of(double v) {
  Bits b;
  memcpy(&b.lo, &v, 8);
  return b;
}
static inline Bits bits_of(long double v) {
  Bits b;
  unsigned char raw[16];
  memset(raw, 0, 16);
  memcpy(raw, &v, 10);
  memcpy(&b.lo, raw, 8);      // 10 significant bytes of the x87 format
  memcpy(&b.hi, raw + 8, 2);
  return b;
}
static inline std::string fmt_ld(long double v) {
  char buf[64];
  snprintf(buf, sizeof buf, "%.21Lg", v);
  return buf;
}
static inline std::string fmt_bits(const Bits& b) {
  char buf[48];
  snprintf(buf, sizeof buf, "%04x:%016llx", (unsigned)b.hi, (unsigned long long)b.lo);
  return buf;
}

// ------------------------------------------------------------------ stdout capture (fd 1 -> memfd)
static int g_capfd = -1;
static FILE* g_out = nullptr;  // the simulator's own result stream (the original stdout)
static void capture_init() {
  fflush(stdout);
  int keep = dup(1);
  if (keep < 0) sim_die("dup(1)");
  g_out = fdopen(keep, "w");
  if (!g_out) sim_die("fdopen");
  g_capfd = memfd_create("simcap", 0);
  if (g_capfd < 0) sim_die("memfd_create");
  if (dup2(g_capfd, 1) < 0) sim_die("dup2");
}
static std::string capture_drain() {
  std::cout.flush();
  fflush(stdout);
  off_t end = lseek(g_capfd, 0, SEEK_CUR);
  std::string s;
  if (end > 0) {
    s.resize((size_t)end);
    ssize_t r = pread(g_capfd, &s[0], (size_t)end, 0);
    if (r < 0) r = 0;
    s.resize((size_t)r);
    if (ftruncate(g_capfd, 0) != 0) sim_die("ftruncate");
    lseek(g_capfd, 0, SEEK_SET);
  }
  return s;
}

// ------------------------------------------------------------------ crash attribution
// The running step is kept in plain globals so that signal / exit / sanitizer-death handlers can
// report it with async-signal-safe calls only.
static volatile uint64_t g_cur_seed = 0;
static volatile int g_cur_step = -1;
static char g_cur_op[32] = "-";
static char g_cur_owner[24] = "-";  // property ids owning the running step's post-condition, '+'-separated
static volatile int g_in_run = 0;       // 1 while a plan is being executed
static volatile int g_expect_exit = 0;  // 1 in a forked child that is expected to exit

static void emit_crash_line(const char* kind, int sig) {
  char buf[256];
  int n = snprintf(buf, sizeof buf, "CRASH kind=%s sig=%d seed=%llu step=%d op=%s owner=%s\n", kind, sig,
                   (unsigned long long)g_cur_seed, g_cur_step, g_cur_op, g_cur_owner);
  if (g_out && n > 0) {
    ssize_t r = write(fileno(g_out), buf, (size_t)n);
    (void)r;
  }
}
static void on_signal(int sig) {
  emit_crash_line(sig == SIGALRM ? "timeout" : "signal", sig);
  _exit(sig == SIGALRM ? 75 : 70);
}
// Every forked copy (expected abort, process exit, minimiser probe, fresh-process reference) gets its own watchdog and
// lets go of the result stream, so that a copy that hangs can neither live on nor keep the orchestrator's pipe open.
static void child_prologue(bool keep_result_stream) {
  signal(SIGALRM, SIG_DFL);
  alarm(25);
  if (!keep_result_stream && g_out) close(fileno(g_out));
}
static void (*g_exit_probe)() = nullptr;  // "end-of-run hook of the host program", see OP_EXIT_HERE
static void on_exit_hook() {
  // This handler is registered before the simulator's first library call, like an application's own end-of-run hook:
  // the library's registries (namespace-scope objects) are still alive when it runs.  In the forked copy of F6 it
  // uses the library one last time.
  if (g_expect_exit == 2 && g_exit_probe) {
    g_expect_exit = 1;
    g_exit_probe();
    return;
  }
  // exit() called while a plan step was executing in-process: the library terminated the process
  if (g_in_run && !g_expect_exit) {
    fflush(nullptr);
    emit_crash_line("unexpected_exit", 0);
    _exit(71);  // skip the remaining static destructors; the verdict is already out
  }
}
#if defined(__SANITIZE_ADDRESS__)
extern "C" void __sanitizer_set_death_callback(void (*)(void));
static void on_sanitizer_death() { emit_crash_line("sanitizer", 0); }
#endif
static void crash_handlers_init() {
  struct sigaction sa;
  memset(&sa, 0, sizeof sa);
  sa.sa_handler = on_signal;
  sigemptyset(&sa.sa_mask);
  static char altstack[1 << 16];
  stack_t ss;
  ss.ss_sp = altstack;
  ss.ss_size = sizeof altstack;
  ss.ss_flags = 0;
  sigaltstack(&ss, nullptr);
  sa.sa_flags = SA_ONSTACK;
#if !defined(__SANITIZE_ADDRESS__)
  sigaction(SIGSEGV, &sa, nullptr);
  sigaction(SIGBUS, &sa, nullptr);
  sigaction(SIGFPE, &sa, nullptr);
  sigaction(SIGILL, &sa, nullptr);
#endif
  sigaction(SIGABRT, &sa, nullptr);
  sigaction(SIGALRM, &sa, nullptr);
  atexit(on_exit_hook);
#if defined(__SANITIZE_ADDRESS__)
  __sanitizer_set_death_callback(on_sanitizer_death);
#endif
}

// string helpers
static inline bool contains(const std::string& s, const char* sub) { return s.find(sub) != std::string::npos; }
static std::vector<std::string> split_lines(const std::string& s) {
  std::vector<std::string> v;
  size_t i = 0;
  while (i <= s.size()) {
    size_t j = s.find('\n', i);
    if (j == std::string::npos) {
      if (i < s.size()) v.push_back(s.substr(i));
      break;
    }
    v.push_back(s.substr(i, j - i));
    i = j + 1;
  }
  return v;
}
static std::string pct_encode(const std::string& s) {
  std::string o;
  char b[8];
  for (unsigned char c : s) {
    if (isalnum(c) || c == '_' || c == '.') o.push_back((char)c);
    else {
      snprintf(b, sizeof b, "%%%02X", c);
      o += b;
    }
  }
  if (o.empty()) o = "%";  // marker for the empty string
  return o;
}
static std::string pct_decode(const std::string& s) {
  if (s == "%") return "";
  std::string o;
  for (size_t i = 0; i < s.size(); ++i) {
    if (s[i] == '%' && i + 2 < s.size()) {
      o.push_back((char)strtol(s.substr(i + 1, 2).c_str(), nullptr, 16));
      i += 2;
    } else
      o.push_back(s[i]);
  }
  return o;
}
#endif
