// Catalogue facts (frozen data), reference model of the registries and the parameter store.
#ifndef SIM_MODEL_H
#define SIM_MODEL_H
#include "sim_util.h"
#include <fstream>
#include <sstream>
#include <algorithm>

struct EvalInfo {
  int id;
  const char* shortname;
  const char* sig;   // "1".."4" scalars, "2i".."4i" scalars + int, "cb" scalar + callback, "i" int, "v" void
  const char* virt;  // documented base-class virtual
  const char* cname; // C wrapper or ""
};
template <typename S>
struct EvalArgs {
  S x[4];
  int k;
};

struct Sol {
  std::string name;
  int dim = 0;
  bool fixture = false;
  std::vector<char> caps;   // documented evaluators
  std::vector<char> avoid;  // never called
  std::vector<int> sup, unsup;
};
static std::vector<Sol> g_sols;

static std::string normal_form(const std::string& in) {
  std::string o;
  for (unsigned char c : in) {
    if (c == '-' || c == ' ') continue;
    o.push_back((char)tolower(c));
  }
  return o;
}
static int resolve_solution(const std::string& raw) {
  std::string n = normal_form(raw);
  for (size_t i = 0; i < g_sols.size(); ++i)
    if (g_sols[i].name == n) return (int)i;
  return -1;
}

struct Inst {
  int sol = -1;
  bool discovered = false;
  std::map<std::string, long double> p, p0;
  std::map<std::string, std::vector<long double>> v, v0;
  std::set<std::string> wild;  // scalars currently holding a value outside the admissible pool
  bool poisoned = false;       // fixture after init_param: never sanity-checked again
  uint64_t serial = 0;         // identity of this instance within the run (never part of an oracle key)
  struct Recent {
    int ev;
    long double x[4];
    int k;
    int cbkind;
  };
  std::vector<Recent> recent;
  bool evaluable() const { return discovered && wild.empty(); }
  bool at_defaults() const { return discovered && p == p0 && v == v0; }
  int status() const {  // abstract status for coverage accounting
    if (!discovered) return 4;
    bool vr = false;
    for (auto& kv : v) {
      auto it = v0.find(kv.first);
      if (it == v0.end() || it->second.size() != kv.second.size()) vr = true;
    }
    if (vr) return 3;
    if (p == p0 && v == v0) return 0;
    if (!wild.empty() && wild.size() == p.size()) return 2;
    return 1;
  }
};
struct Reg {
  std::map<std::string, Inst> m;
  std::vector<std::pair<std::string, Inst>> grave;  // last states of replaced instances (C12.leak attribution only)
  bool has_cur = false;
  std::string cur;
  Inst* cur_inst() { return has_cur ? &m[cur] : nullptr; }
};
#endif
