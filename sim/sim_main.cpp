// Deterministic session simulator for MASA -- entry point (DESIGN.md section 2).
//   sim --data DIR --batch --seed S --profile P --start I --count N     in-process runs, one RUN line each
//   sim --data DIR --emit-plan --seed S --profile P --index I           print the plan of one run
//   sim --data DIR --replay FILE [--trace]                               execute a plan file
//   sim --data DIR --minimise FILE --prop C12 --oracle X [--sig S] -o OUT   ddmin, every candidate in a forked copy
#include "sim_exec2.h"
#include "sim_gen.h"
#include <sys/resource.h>

#if defined(__SANITIZE_ADDRESS__)
extern "C" __attribute__((used)) const char* __asan_default_options() {
  return "exitcode=77:detect_leaks=0:abort_on_error=0:allocator_may_return_null=1:handle_abort=0:detect_stack_use_after_return=0";
}
extern "C" __attribute__((used)) const char* __ubsan_default_options() { return "halt_on_error=1:exitcode=77:print_stacktrace=1"; }
#endif

static void load_catalogue(const std::string& dir) {
  std::ifstream f(dir + "/catalogue.txt");
  if (!f) sim_die("cannot read data/catalogue.txt");
  std::string line;
  std::map<std::string, int> evid;
  for (int i = 0; i < SIM_NUM_EVALS; ++i) evid[std::string(g_evals[i].shortname) + "/" + g_evals[i].sig] = i;
  while (std::getline(f, line)) {
    if (line.empty() || line[0] == '#') continue;
    std::vector<std::string> t = split_ws(line);
    if (t[0] == "solution" && t.size() >= 4) {
      Sol s;
      s.name = t[1];
      s.dim = atoi(t[2].c_str());
      s.fixture = t[3] == "1";
      s.caps.assign(SIM_NUM_EVALS, 0);
      s.avoid.assign(SIM_NUM_EVALS, 0);
      for (size_t i = 4; i < t.size(); ++i) {
        auto it = evid.find(t[i]);
        if (it == evid.end()) sim_die(("catalogue names an unknown evaluator: " + t[i]).c_str());
        s.caps[(size_t)it->second] = 1;
      }
      g_sols.push_back(s);
    } else if (t[0] == "avoid" && t.size() >= 3) {
      for (Sol& s : g_sols)
        if (s.name == t[1]) {
          auto it = evid.find(t[2]);
          if (it == evid.end()) sim_die("bad avoid line");
          s.avoid[(size_t)it->second] = 1;
        }
    }
  }
  for (Sol& s : g_sols)
    for (int i = 0; i < SIM_NUM_EVALS; ++i) {
      if (s.avoid[(size_t)i]) continue;
      (s.caps[(size_t)i] ? s.sup : s.unsup).push_back(i);
    }
  if (g_sols.empty()) sim_die("empty catalogue");
}

struct RunResult {
  uint64_t loghash = 0, ileave = 0;
  std::vector<Violation> viols;
  std::map<std::string, long> orc, fired, opcount;
  long nsteps = 0, sup = 0, unsup = 0, skipped = 0;
  long long leak_blocks = 0, leak_bytes = 0;
  std::set<uint64_t> states, transitions, cells;
};

static RunResult run_one(const Plan& plan) {
  RunResult rr;
  g_cur_seed = plan.seed;
  g_cur_step = -1;
  strcpy(g_cur_op, "SETUP");
  strcpy(g_cur_owner, "C19");
  g_in_run = 1;
  alarm(30);
  capture_drain();
  simseam::alloc_begin_run(plan.alloc_mode, plan.alloc_seed);
  simseam::AllocStats base = simseam::alloc_stats();
  {
    Exec ex(plan);
    ex.run();
    rr.viols = ex.viols;
    rr.orc = ex.orc;
    rr.fired = ex.fired;
    rr.opcount = ex.opcount;
    rr.nsteps = ex.nsteps;
    rr.sup = ex.evals_sup;
    rr.unsup = ex.evals_unsup;
    rr.skipped = ex.skipped;
    rr.states = ex.states;
    rr.transitions = ex.transitions;
    rr.cells = ex.covcells;
    rr.ileave = ex.ileave.h;
    // teardown: the REAL registry destructors on whatever state the run ended in
    g_cur_step = (int)plan.steps.size() + 1;
    strcpy(g_cur_op, "TEARDOWN");
    strcpy(g_cur_owner, "C19");
    capture_drain();
    simseam::reset_registries();
    simseam::AllocStats after = simseam::alloc_stats();
    rr.leak_blocks = after.live_blocks - base.live_blocks;
    rr.leak_bytes = after.live_bytes - base.live_bytes;
    rr.fired["F1b_recycled_block"] += (long)after.recycled;
    rr.fired["F1c_garbage_fill"] += (long)after.garbage_fills;
    rr.fired["F1d_poison_on_free"] += (long)after.poison_fills;
    if (plan.alloc_mode == simseam::AM_ZERO) rr.fired["F1a_zero_heap"] += 1;
    Fnv lh = ex.log;
    lh.u64(rr.viols.size());
    for (const Violation& v : rr.viols) {
      lh.str(v.prop);
      lh.str(v.oracle);
      lh.i32(v.step);
    }
    rr.loghash = lh.h;
    ++rr.orc["C19"];
    // Clause checked here: memory in use must not grow with the number of masa_init calls by anything like a solution
    // object (the smallest is > 2 KB; every init builds 37 of them).  Reachability at exit is memcheck's business.
    const long long leak_threshold = 512LL * (long long)(ex.ninit + 1);
    if (simseam::alloc_active() && rr.leak_bytes > leak_threshold && !ex.stop) {
      // Conservation at teardown failed.  One-time lazy allocations of the C++ runtime (first use of a stream
      // facet inside a library call) look the same, so the growth must RECUR when the same plan is executed
      // again in this process: only repeatable growth is growth with the number of masa_init calls.
      simseam::alloc_begin_run(plan.alloc_mode, plan.alloc_seed);
      simseam::AllocStats b2 = simseam::alloc_stats();
      long long lb = 0, lby = 0;
      {
        Exec ex2(plan);
        ex2.dry = true;
        g_trace_mute = true;
        ex2.run();
        g_trace_mute = false;
        capture_drain();
        simseam::reset_registries();
        simseam::AllocStats a2 = simseam::alloc_stats();
        lb = a2.live_blocks - b2.live_blocks;
        lby = a2.live_bytes - b2.live_bytes;
      }
      if (lby > leak_threshold) {
        Violation v;
        v.prop = "C19";
        v.oracle = "C19.leak.teardown";
        v.sig = "teardown";
        v.step = (int)plan.steps.size() + 1;
        v.msg = std::to_string(lb) + " library blocks (" + std::to_string(lby) + " bytes) allocated during the run are still live after the registries were destroyed (reproduced on a second execution: " + std::to_string(rr.leak_blocks) + " blocks the first time)";
        rr.viols.push_back(v);
        rr.leak_blocks = lb;
        rr.leak_bytes = lby;
      } else {
        rr.leak_blocks = 0;
        rr.leak_bytes = 0;
      }
    }
  }
  capture_drain();
  alarm(0);
  g_in_run = 0;
  return rr;
}

static std::string kvmap(const std::map<std::string, long>& m) {
  std::string o;
  for (auto& kv : m) {
    if (!o.empty()) o += ",";
    o += kv.first + ":" + std::to_string(kv.second);
  }
  return o.empty() ? "-" : o;
}
static void print_result(const char* tag, uint64_t idx, const Plan& plan, const RunResult& rr) {
  fprintf(g_out, "%s idx=%llu seed=%llu planhash=%016llx loghash=%016llx steps=%ld viol=%zu ileave=%016llx alloc=%d clients=%zu racy=%d sup=%ld unsup=%ld skipped=%ld leak=%lld orc=%s fired=%s ops=%s\n",
          tag, (unsigned long long)idx, (unsigned long long)plan.seed, (unsigned long long)plan_hash(plan), (unsigned long long)rr.loghash, rr.nsteps,
          rr.viols.size(), (unsigned long long)rr.ileave, plan.alloc_mode, plan.clients.size(), plan.racy, rr.sup, rr.unsup, rr.skipped, rr.leak_bytes,
          kvmap(rr.orc).c_str(), kvmap(rr.fired).c_str(), kvmap(rr.opcount).c_str());
  for (const Violation& v : rr.viols)
    fprintf(g_out, "VIOL idx=%llu seed=%llu prop=%s oracle=%s step=%d sig=%s msg=%s\n", (unsigned long long)idx, (unsigned long long)plan.seed, v.prop.c_str(),
            v.oracle.c_str(), v.step, pct_encode(v.sig).c_str(), pct_encode(v.msg).c_str());
  fflush(g_out);
}

static std::string read_file(const std::string& path) {
  std::ifstream f(path);
  if (!f) sim_die(("cannot read " + path).c_str());
  std::stringstream ss;
  ss << f.rdbuf();
  return ss.str();
}

// A replay file holds one plan, or several: then the earlier plans are the HISTORY of the worker process (earlier
// sessions executed in the same process) that the last plan needs in order to show its violation.
static std::vector<Plan> plans_from_text(const std::string& text) {
  std::vector<Plan> out;
  std::vector<std::string> lines = split_lines(text);
  std::string cur;
  bool in = false;
  for (const std::string& l : lines) {
    if (l.compare(0, 8, "simplan ") == 0) {
      if (in) {
        Plan p;
        if (plan_from_text(cur, p)) out.push_back(p);
      }
      cur.clear();
      in = true;
    }
    if (in) cur += l + "\n";
  }
  if (in) {
    Plan p;
    if (plan_from_text(cur, p)) out.push_back(p);
  }
  return out;
}

// ---------------------------------------------------------------------- minimisation (ddmin, forked candidates)
struct Target {
  std::string prop, oracle, sig;
  bool crash = false;  // the target is a crash of the worker (kind/owner in oracle/prop)
};
struct Probe {
  bool hit = false;
  uint64_t loghash = 0;
  std::string msg;
  int step = -1;
};
static int g_probe_count = 0;
static std::vector<Plan> g_history;  // plans executed before every candidate (history of the process)
static Probe probe(const Plan& plan, const Target& t) {
  ++g_probe_count;
  Probe pr;
  int fds[2];
  if (pipe(fds) != 0) sim_die("pipe");
  fflush(nullptr);
  pid_t pid = fork();
  if (pid < 0) sim_die("fork");
  if (pid == 0) {
    close(fds[0]);
    child_prologue(false);
    alarm(120);  // a probe executes whole plans (and their history)
    // crash lines of the child go to the pipe too
    FILE* o = fdopen(fds[1], "w");
    g_out = o;
    for (const Plan& h : g_history) (void)run_one(h);
    RunResult rr = run_one(plan);
    for (const Violation& v : rr.viols) {
      if (v.prop == t.prop && v.oracle == t.oracle && (t.sig.empty() || v.sig == t.sig)) {
        fprintf(o, "HIT %016llx %d %s\n", (unsigned long long)rr.loghash, v.step, pct_encode(v.msg).c_str());
        break;
      }
    }
    fprintf(o, "DONE\n");
    fflush(o);
    _exit(0);
  }
  close(fds[1]);
  std::string buf;
  char tmp[4096];
  ssize_t n;
  while ((n = read(fds[0], tmp, sizeof tmp)) > 0) buf.append(tmp, (size_t)n);
  close(fds[0]);
  int status = 0;
  waitpid(pid, &status, 0);
  bool done = false, crashline = false;
  for (const std::string& l : split_lines(buf)) {
    if (l == "DONE") done = true;
    if (l.compare(0, 6, "CRASH ") == 0) crashline = true;
  }
  if (t.crash && !done && !crashline) {
    // silent death (e.g. a UBSan report does not run the death callback): classify by the wait status
    bool san = WIFEXITED(status) && WEXITSTATUS(status) == 77;
    bool sig = WIFSIGNALED(status);
    if ((t.oracle == "sanitizer" && san) || (t.oracle == "signal" && sig)) {
      pr.hit = true;
      pr.msg = "silent death";
    }
  }
  if (t.crash && t.oracle == "valgrind") {
    // memcheck: the forked copy exits with the error exit code at its first error, or at its leak check
    if (WIFEXITED(status) && WEXITSTATUS(status) == 78) {
      pr.hit = true;
      pr.msg = "silent death";
    }
  }
  for (const std::string& l : split_lines(buf)) {
    if (!t.crash && l.compare(0, 4, "HIT ") == 0) {
      std::vector<std::string> w = split_ws(l);
      pr.hit = true;
      if (w.size() >= 4) {
        pr.loghash = strtoull(w[1].c_str(), nullptr, 16);
        pr.step = atoi(w[2].c_str());
        pr.msg = pct_decode(w[3]);
      }
    }
    if (t.crash && l.compare(0, 6, "CRASH ") == 0) {
      // same kind of death, same owning property
      bool owner_ok = t.prop.empty();
      size_t op = l.find("owner=");
      if (!owner_ok && op != std::string::npos) {
        std::string owners = "+" + l.substr(op + 6) + "+";
        while (!owners.empty() && (owners.back() == '\n' || owners.back() == ' ')) owners.pop_back();
        owner_ok = owners.find("+" + t.prop + "+") != std::string::npos;
      }
      if (contains(l, ("kind=" + t.oracle + " ").c_str()) && owner_ok) {
        pr.hit = true;
        pr.msg = l;
      }
    }
  }
  return pr;
}

static Plan minimise(Plan plan, const Target& t, int budget) {
  auto ok = [&](const Plan& c) { return g_probe_count < budget && probe(c, t).hit; };
  // 1. ddmin over top-level steps
  size_t n = 2;
  while (plan.steps.size() >= 2 && g_probe_count < budget) {
    size_t len = plan.steps.size();
    size_t chunk = (len + n - 1) / n;
    bool reduced = false;
    for (size_t start = 0; start < len; start += chunk) {
      Plan c = plan;
      c.steps.erase(c.steps.begin() + (long)start, c.steps.begin() + (long)std::min(len, start + chunk));
      if (c.steps.empty()) continue;
      if (ok(c)) {
        plan = c;
        n = std::max<size_t>(n - 1, 2);
        reduced = true;
        break;
      }
    }
    if (!reduced) {
      if (chunk <= 1) break;
      n = std::min(len, n * 2);
    }
  }
  // 2. single steps, to a fixpoint
  bool again = true;
  while (again && g_probe_count < budget) {
    again = false;
    for (size_t i = 0; i < plan.steps.size() && plan.steps.size() > 1; ++i) {
      Plan c = plan;
      c.steps.erase(c.steps.begin() + (long)i);
      if (ok(c)) {
        plan = c;
        again = true;
        --i;
      }
    }
  }
  // 3. simplify: nested steps, allocator mode, decorations, values, clients
  for (size_t i = 0; i < plan.steps.size(); ++i) {
    if (!plan.steps[i].nested.empty()) {
      Plan c = plan;
      c.steps[i].nested.clear();
      if (ok(c)) plan = c;
    }
  }
  if (plan.alloc_mode != 0) {
    Plan c = plan;
    c.alloc_mode = 0;
    if (ok(c)) plan = c;
  }
  for (size_t i = 0; i < plan.steps.size(); ++i) {
    Step& s = plan.steps[i];
    if (s.op == OP_INIT) {
      int si = resolve_solution(s.s);
      if (si >= 0 && s.s != g_sols[(size_t)si].name) {
        Plan c = plan;
        c.steps[i].s = g_sols[(size_t)si].name;
        if (ok(c)) plan = c;
      }
    }
    if (s.op == OP_SET && (s.b != 0 || s.c != 1)) {
      Plan c = plan;
      c.steps[i].b = 0;
      c.steps[i].c = 1;
      if (ok(c)) plan = c;
    }
    if (s.op == OP_SET_VEC && s.len > 3) {
      Plan c = plan;
      c.steps[i].len = 3;
      if (ok(c)) plan = c;
    }
  }
  // fold everything onto client 0 when that keeps the violation
  if (plan.clients.size() > 1) {
    for (size_t keep = 0; keep < plan.clients.size(); ++keep) {
      Plan c = plan;
      Client k = plan.clients[keep];
      c.clients.assign(1, k);
      bool all = true;
      for (Step& s : c.steps) {
        if ((size_t)s.client % plan.clients.size() != keep) all = false;
        s.client = 0;
        for (Step& ns : s.nested) ns.client = 0;
      }
      if (!all) continue;
      if (ok(c)) {
        plan = c;
        break;
      }
    }
  }
  return plan;
}

int main(int argc, char** argv) {
  std::string data = "data", mode, file, profile = "GEN", out, tprop, toracle, tsig, variant = "?";
  uint64_t seed = 1, start = 0, count = 1, index = 0;
  int budget = 600;
  bool tcrash = false;
  for (int i = 1; i < argc; ++i) {
    std::string a = argv[i];
    auto nxt = [&]() -> std::string { return i + 1 < argc ? std::string(argv[++i]) : std::string(); };
    if (a == "--data") data = nxt();
    else if (a == "--batch") mode = "batch";
    else if (a == "--emit-plan") mode = "emit";
    else if (a == "--replay") { mode = "replay"; file = nxt(); }
    else if (a == "--minimise") { mode = "minimise"; file = nxt(); }
    else if (a == "--seed") seed = strtoull(nxt().c_str(), nullptr, 10);
    else if (a == "--start") start = strtoull(nxt().c_str(), nullptr, 10);
    else if (a == "--count") count = strtoull(nxt().c_str(), nullptr, 10);
    else if (a == "--index") index = strtoull(nxt().c_str(), nullptr, 10);
    else if (a == "--profile") profile = nxt();
    else if (a == "--trace") g_trace = true;
    else if (a == "-o") out = nxt();
    else if (a == "--prop") tprop = nxt();
    else if (a == "--oracle") toracle = nxt();
    else if (a == "--sig") tsig = pct_decode(nxt());
    else if (a == "--crash") tcrash = true;
    else if (a == "--variant") variant = nxt();
    else if (a == "--budget") budget = atoi(nxt().c_str());
    else sim_die(("unknown argument " + a).c_str());
  }
  load_catalogue(data);
  if (mode == "batch" || mode == "replay" || mode == "minimise") zygote_start();  // before any library call
  capture_init();
  crash_handlers_init();
  struct rlimit rl;
  rl.rlim_cur = rl.rlim_max = 0;
  setrlimit(RLIMIT_CORE, &rl);
  (void)simseam::alloc_active();

  if (mode == "batch") {
    std::set<uint64_t> states, trans, cells;
    for (uint64_t i = start; i < start + count; ++i) {
      uint64_t rs = mix64(seed, i);
      Plan plan = gen_plan(rs, profile, i);
      fprintf(g_out, "START idx=%llu seed=%llu\n", (unsigned long long)i, (unsigned long long)rs);
      fflush(g_out);
      RunResult rr = run_one(plan);
      print_result("RUN", i, plan, rr);
      states.insert(rr.states.begin(), rr.states.end());
      trans.insert(rr.transitions.begin(), rr.transitions.end());
      cells.insert(rr.cells.begin(), rr.cells.end());
      if ((i - start) % 50 == 49 || i + 1 == start + count) {
        auto dump = [&](const char* tag, std::set<uint64_t>& s) {
          fprintf(g_out, "%s", tag);
          for (uint64_t h : s) fprintf(g_out, " %llx", (unsigned long long)h);
          fprintf(g_out, "\n");
          s.clear();
        };
        dump("STATES", states);
        dump("TRANS", trans);
        dump("CELLS", cells);
        fflush(g_out);
      }
    }
    fprintf(g_out, "BATCH-END start=%llu count=%llu alloc_active=%d sanitized=%d exc=%d\n", (unsigned long long)start, (unsigned long long)count,
            (int)simseam::alloc_active(), (int)simseam::alloc_is_sanitized(), (int)kExcBuild);
    fflush(g_out);
    g_in_run = 0;
    _exit(0);
  }
  if (mode == "emit") {
    Plan plan = gen_plan(mix64(seed, index), profile, index);
    fputs(plan_to_text(plan).c_str(), g_out);
    fflush(g_out);
    _exit(0);
  }
  if (mode == "replay") {
    std::vector<Plan> plans = plans_from_text(read_file(file));
    if (plans.empty()) sim_die("not a plan file");
    RunResult rr;
    for (size_t i = 0; i < plans.size(); ++i) {
      fprintf(g_out, "START idx=%zu seed=%llu\n", i, (unsigned long long)plans[i].seed);
      fflush(g_out);
      if (i + 1 < plans.size()) g_trace_mute = true;  // history: only the last plan is traced
      rr = run_one(plans[i]);
      g_trace_mute = false;
      print_result(i + 1 < plans.size() ? "HISTORY" : "RUN", i, plans[i], rr);
    }
    fflush(g_out);
    _exit(rr.viols.empty() ? 0 : 1);
  }
  if (mode == "minimise") {
    std::vector<Plan> plans = plans_from_text(read_file(file));
    if (plans.empty()) sim_die("not a plan file");
    Plan plan = plans.back();
    plans.pop_back();
    g_history = plans;
    Target t;
    t.prop = tprop;
    t.oracle = toracle;
    t.sig = tsig;
    t.crash = tcrash;
    Probe first = probe(plan, t);
    if (!first.hit) {
      fprintf(g_out, "MINIMISE-NOREPRO\n");
      fflush(g_out);
      _exit(3);
    }
    size_t before = count_steps(plan.steps), hist_before = g_history.size();
    // history first: whole earlier sessions are dropped while the violation persists (suffixes, then single plans)
    if (!g_history.empty()) {
      std::vector<Plan> full = g_history;
      g_history.clear();
      if (!probe(plan, t).hit) {
        size_t keep = 1;
        for (;; keep *= 2) {
          if (keep > full.size()) keep = full.size();
          g_history.assign(full.end() - (long)keep, full.end());
          if (probe(plan, t).hit || keep == full.size()) break;
        }
        for (size_t i = 0; i < g_history.size() && g_probe_count < budget / 2;) {
          std::vector<Plan> saved = g_history;
          g_history.erase(g_history.begin() + (long)i);
          if (probe(plan, t).hit) continue;
          g_history = saved;
          ++i;
        }
      }
    }
    Plan m = minimise(plan, t, budget);
    // the remaining history plans are minimised too, one after the other, with the final plan fixed
    for (size_t hi = 0; hi < g_history.size() && g_probe_count < budget + budget / 2; ++hi) {
      Plan hp = g_history[hi];
      // greedy single-step removal inside the history plan
      for (size_t i = 0; i < hp.steps.size() && hp.steps.size() > 1 && g_probe_count < budget + budget / 2;) {
        Plan c = hp;
        c.steps.erase(c.steps.begin() + (long)i);
        Plan saved = g_history[hi];
        g_history[hi] = c;
        if (probe(m, t).hit) {
          hp = c;
        } else {
          g_history[hi] = saved;
          ++i;
        }
      }
      g_history[hi] = hp;
    }
    Probe last = probe(m, t);
    if (!last.hit) {  // cannot happen for a deterministic simulator; fall back to the original
      m = plan;
      g_history = plans;
      last = first;
    }
    std::string text;
    text += "# simulator replay file (plan format: sim/sim_plan.h); replay with: python3 replay.py THISFILE --trace\n";
    text += "# property=" + t.prop + "\n# oracle=" + t.oracle + "\n# sig=" + pct_encode(t.sig) + "\n# crash=" + (t.crash ? "1" : "0") + "\n# variant=" + variant + "\n";
    char b[256];
    snprintf(b, sizeof b, "# loghash=%016llx\n# steps_before=%zu\n# steps_after=%zu\n# probes=%d\n# history_plans_before=%zu\n# history_plans_after=%zu\n", (unsigned long long)last.loghash, before,
             count_steps(m.steps), g_probe_count, hist_before, g_history.size());
    text += b;
    text += "# message=" + pct_encode(last.msg) + "\n";
    if (!g_history.empty()) text += "# the plans before the last one are earlier sessions of the same process (history the violation depends on)\n";
    for (const Plan& h : g_history) text += plan_to_text(h);
    text += plan_to_text(m);
    if (!out.empty()) {
      FILE* f = fopen(out.c_str(), "w");
      if (!f) sim_die("cannot write output");
      fputs(text.c_str(), f);
      fclose(f);
    }
    fprintf(g_out, "MINIMISED steps_before=%zu steps_after=%zu probes=%d history=%zu loghash=%016llx\n", before, count_steps(m.steps), g_probe_count, g_history.size(), (unsigned long long)last.loghash);
    fflush(g_out);
    _exit(0);
  }
  sim_die("no mode given");
}
