// Executor, second part: the remaining step kinds, Mirror, Twin, printid, run loop.
#ifndef SIM_EXEC2_H
#define SIM_EXEC2_H
#include "sim_exec.h"
#include "sim_fresh.h"
#include <thread>

static const char* op_owner(int op) {
  switch (op) {
    case OP_INIT: return "C12+C14";
    case OP_SELECT: case OP_LIST: case OP_GET_NAME: case OP_AUDIT: case OP_PASS_FUNC: return "C12";
    case OP_GET_DIM: case OP_PRINTID: case OP_SWEEP: return "C14";
    case OP_EVAL: case OP_EVAL_SUP: case OP_TWIN: case OP_FRESH: return "C10";
    case OP_EVAL_UNSUP: case OP_WALK_UNSUP: return "C15";
    case OP_MIRROR: return "C17";
    case OP_SELECT_UNKNOWN: case OP_PREINIT_CALL: return "C16";
    case OP_INIT_UNKNOWN: return "C13+C16";
    case OP_EXIT_HERE: return "C19";
    default: return "C11";
  }
}

static bool nested_allowed(int op) {
  switch (op) {
    case OP_SELECT: case OP_INIT: case OP_LIST: case OP_GET_NAME: case OP_GET_DIM: case OP_GET: case OP_SET:
    case OP_SET_VEC: case OP_GET_VEC: case OP_PURGE: case OP_INIT_PARAM: case OP_SELECT_UNKNOWN: case OP_INIT_UNKNOWN:
    case OP_GET_UNKNOWN: case OP_SET_UNKNOWN: case OP_SANITY:
    case OP_EVAL_SUP: case OP_EVAL_UNSUP:  // a callback may evaluate ANOTHER handle (never the one being evaluated)
      return true;
    default: return false;
  }
}
static bool is_mutator(int op) {
  switch (op) {
    case OP_SET: case OP_SET_VEC: case OP_PURGE: case OP_INIT_PARAM: case OP_SET_UNKNOWN: case OP_SET_VEC_UNKNOWN: return true;
    default: return false;
  }
}

// End-of-run hook used by the forked copy of F6 (process exit): lists both registries and calls one evaluator on
// whatever is selected.  Legal for a host program: its atexit handler was registered before the library was used.
static bool g_probe_has_cur[2] = {false, false};
static bool g_probe_undocumented[2] = {false, false};  // the selected solution does not provide posterior_mean
static void exit_probe() {
  MASA::masa_list_mms<double>();
  MASA::masa_list_mms<long double>();
  bool ok = true;
  if (g_probe_has_cur[0]) {
    double r = MASA::masa_eval_posterior_mean<double>();
    if (g_probe_undocumented[0] && bits_of(r) != bits_of(-1.33)) ok = false;
  }
  if (g_probe_has_cur[1]) {
    long double r = MASA::masa_eval_posterior_mean<long double>();
    if (g_probe_undocumented[1] && bits_of(r) != bits_of((long double)(-1.33))) ok = false;
  }
  std::cout.flush();
  if (!ok) _exit(43);  // an evaluator the solution does not provide answered something else than -1.33
}

// instance under evaluation while a callback is pre-empted (never touched by nested steps)
static int g_guard_prec = -1;
static std::string g_guard_handle;

void Exec::exec_step(const Step& st, int depth) {
  if (stop) return;
  if (plan.clients.empty()) return;
  const Client& cl = plan.clients[(size_t)st.client % plan.clients.size()];
  if (depth > 0 && !nested_allowed(st.op)) {
    ++skipped;
    return;
  }
  if (depth == 0) {
    g_cur_step = stepno;
    strncpy(g_cur_op, g_opnames[st.op], sizeof g_cur_op - 1);
    set_owner(op_owner(st.op));
    step_out.clear();
  }
  if (!dry) ++opcount[g_opnames[st.op]];
  ++nsteps;
  log.i32(st.op);
  log.i32(st.client);
  ileave.i32(st.client * 64 + st.op);
  if (g_trace && !g_trace_mute) {
    fprintf(g_out, "%*sstep %d%s client=%d(%s,%s) %s h=%d a=%d b=%d cb=%d k=%d len=%d val=%s s='%s'\n", depth * 4, "", stepno,
            depth ? "(nested)" : "", st.client, cl.prec ? "ld" : "d", cl.lang ? "C" : "C++", g_opnames[st.op], st.h, st.a, st.b, st.c,
            st.k, st.len, hexf(st.val).c_str(), st.s.c_str());
    fflush(g_out);
  }
  // The caller of a step is usually the main thread; now and then it is another OS thread of the host program, started
  // and joined at once (no concurrency, so nothing nondeterministic): state must not be tied to the calling thread.
  // (Only in the exception build: there no step forks, and forking from a secondary thread is not something the
  // harness should add to the picture.)
  const bool other_thread = kExcBuild && depth == 0 && st.op != OP_EXIT_HERE && (st.u >> 41) % 40 == 7;
  auto dispatch = [&] {
    if (cl.prec == 0)
      do_step<double>(st, cl, depth);
    else
      do_step<long double>(st, cl, depth);
  };
  if (other_thread) {
    std::thread t(dispatch);
    t.join();
    fire("F8_other_caller_thread");
  } else
    dispatch();
  if (depth == 0) {
    Fnv f;
    f.str(step_out);
    log.u64(f.h);
    record_state(st);
  }
}

void Exec::record_state(const Step& st) {
  if (dry) return;
  Fnv f;
  for (int pr = 0; pr < 2; ++pr) {
    std::multiset<int> ms_;
    for (auto& kv : reg[pr].m) ms_.insert(kv.second.sol * 8 + kv.second.status());
    f.i32(pr);
    for (int x : ms_) f.i32(x);
    f.i32(reg[pr].has_cur ? reg[pr].m[reg[pr].cur].sol : -1);
  }
  f.i32(plan.alloc_mode);
  states.insert(f.h);
  transitions.insert(mix64(f.h, (uint64_t)st.op));
}

void Exec::do_printid() {
  std::string o1, o2;
  CallOut c1 = call(false, [&] { MASA::masa_printid<double>(); });
  if (unexpected(c1, "C14", "printid")) return;
  CallOut c2 = call(false, [&] { MASA::masa_printid<long double>(); });
  if (unexpected(c2, "C14", "printid")) return;
  auto names = [](const std::string& out) {
    std::vector<std::string> v;
    bool in = false;
    for (const std::string& l : split_lines(out)) {
      if (l.find("*-----") != std::string::npos) {
        // the first name follows the opening rule on the same line break; the closing rule ends the list
        if (in) break;
        in = true;
        std::string rest = l.substr(l.find("*-----"));
        size_t e = rest.find_last_of('*');
        if (e != std::string::npos && e + 1 < rest.size()) v.push_back(rest.substr(e + 1));
        continue;
      }
      if (in && !l.empty()) v.push_back(l);
    }
    return v;
  };
  std::vector<std::string> n1 = names(c1.out), n2 = names(c2.out);
  orc_eval("C14");
  if (n1 != n2) viol("C14", "C14.printid.precisions", "printid", "double and long double catalogues differ");
  std::set<std::string> seen;
  for (const std::string& n : n1) {
    if (!seen.insert(n).second) viol("C14", "C14.printid.unique", n, "name listed twice");
    if (normal_form(n) != n) viol("C14", "C14.printid.normalform", n, "listed name is not its own normal form");
  }
  std::set<std::string> golden;
  for (const Sol& s : g_sols) golden.insert(s.name);
  {
    // a documented solution that is no longer listed is a verdict; a solution the frozen table does not know yet
    // (an upstream addition) is not: the table has nothing to say about it
    std::string d;
    for (auto& s : golden)
      if (!seen.count(s)) d += " -" + s;
    if (!d.empty()) viol("C14", "C14.printid.set", "printid", "documented catalogue entries are not listed:" + d);
  }
}

template <typename S>
void Exec::do_twin(const Step& st, const Client& cl) {
  const int prec = cl.prec;
  Reg& R = reg[prec];
  if (!R.has_cur) {
    ++skipped;
    return;
  }
  Inst src = R.m[R.cur];  // copy: the map changes below
  const Sol& sol = g_sols[src.sol];
  if (sol.fixture || !src.evaluable() || src.recent.empty() || ninit >= 10) {
    ++skipped;
    return;
  }
  std::string th = "twin#" + std::to_string(twin_counter++);
  Client ccl = cl;
  ccl.lang = 0;
  do_init<S>(st, ccl, th, sol.name);
  if (stop || !R.has_cur || R.cur != th) return;
  Inst& tw = R.m[th];
  // nothing but the parameters may carry information: copy them through the public API
  for (auto& kv : src.p) {
    const std::string n = kv.first;
    S v = ms<S>(kv.second);
    CallOut co = call(false, [&] { MASA::masa_set_param<S>(n, v); });
    if (unexpected(co, "C10", "set_param")) return;
    tw.p[n] = kv.second;
  }
  for (auto& kv : src.v) {
    const std::string n = kv.first;
    std::vector<S> v(kv.second.begin(), kv.second.end());
    CallOut co = call(false, [&] { MASA::masa_set_vec<S>(n, v); });
    if (unexpected(co, "C10", "set_vec")) return;
    tw.v[n] = kv.second;
  }
  tw.wild = src.wild;
  if (!verify_selected<S>(prec, tw, "C11", "C11.frame.twincopy")) return;
  // re-evaluate what the source instance evaluated recently: the purity table decides
  // most recent first: the twin's first call repeats the source instance's last call (same point, same values, one
  // right after the other -- the situation in which state shared between instances is most likely to be mistaken for the twin's own)
  std::vector<Inst::Recent> order(src.recent.rbegin(), src.recent.rend());
  for (const Inst::Recent& rc : order) {
    Step es;
    es.op = OP_EVAL;
    es.client = st.client;
    es.a = rc.ev;
    es.b = 0;
    es.k = rc.k;
    es.c = rc.cbkind;
    eval_abs = rc.x;  // exactly the point the source instance was evaluated at
    eval_abs_k = true;
    do_eval<S>(es, ccl, rc.ev, 1);
    eval_abs = nullptr;
    eval_abs_k = false;
    if (stop) return;
  }
}

template <typename S>
void Exec::do_mirror(const Step& st, const Client& cl) {
  // C entry points against MASA::...<double> on the same state (always the double registry)
  (void)cl;
  Reg& R = reg[0];
  const int kind = st.b % 10;
  if (!R.has_cur) {
    ++skipped;
    return;
  }
  Inst& inst = R.m[R.cur];
  const Sol& sol = g_sols[inst.sol];
  std::vector<std::string> pn, vn;
  for (auto& kv : inst.p) pn.push_back(kv.first);
  for (auto& kv : inst.v) vn.push_back(kv.first);
  switch (kind) {
    case 0: {  // evaluator: any evaluator that has a C wrapper, documented or not
      std::vector<int> withc;
      for (int i = 0; i < SIM_NUM_EVALS; ++i)
        if (g_evals[i].cname[0] && !sol.avoid[i] && (!sol.caps[i] || inst.evaluable())) withc.push_back(i);
      if (withc.empty()) {
        ++skipped;
        return;
      }
      // prefer documented evaluators half of the time
      std::vector<int> doc;
      for (int i : withc)
        if (sol.caps[i]) doc.push_back(i);
      int ev = (!doc.empty() && (st.u & 1)) ? doc[(size_t)st.a % doc.size()] : withc[(size_t)st.a % withc.size()];
      Client ccl;
      ccl.prec = 0;
      ccl.lang = 1;
      do_eval<double>(st, ccl, ev, 1);
      return;
    }
    case 1: {  // get_param
      if (pn.empty()) break;
      const std::string n = pn[(size_t)st.a % pn.size()];
      double c = 0, x = 0;
      CallOut co = call(false, [&] {
        c = ::masa_get_param(n.c_str());
        x = MASA::masa_get_param<double>(n);
      });
      if (unexpected(co, "C17", "get_param")) return;
      orc_eval("C17");
      if (bits_of(c) != bits_of(x)) viol("C17", "C17.get_param", "masa_get_param", "C returns " + fmt_ld(c) + ", C++ " + fmt_ld(x));
      return;
    }
    case 2: {  // set_param through C, read through C++
      if (pn.empty() || sol.fixture) break;
      const std::string n = pn[(size_t)st.a % pn.size()];
      if (sol.name == "sod_1d") break;  // keeps its (Gamma, mu) pair consistent elsewhere
      auto it0 = inst.p0.find(n);
      double v = (double)((it0 != inst.p0.end() ? it0->second : 1.0L) * factors[1 + st.c % 5]);
      if (v == 0) v = (double)(factors[1 + st.c % 5] - 1.0L);
      double x = 0;
      CallOut co = call(false, [&] {
        ::masa_set_param(n.c_str(), v);
        x = MASA::masa_get_param<double>(n);
      });
      if (unexpected(co, "C17", "set_param")) return;
      orc_eval("C17");
      inst.p[n] = x;
      if (bits_of(v) != bits_of(x)) viol("C17", "C17.set_param", "masa_set_param", "C set " + fmt_ld(v) + " but C++ reads " + fmt_ld(x));
      else inst.wild.erase(n);
      verify_selected<double>(0, inst, "C17", "C17.set_param.frame");
      return;
    }
    case 3: {  // set_array through C, get_vec through C++
      if (vn.empty()) break;
      const std::string n = vn[(size_t)st.a % vn.size()];
      int len = st.len < 0 ? (int)inst.v[n].size() % 41 : st.len % 41;
      std::vector<double> arr((size_t)len + 1, 0.0);
      Rng r(st.u);
      for (int i = 0; i < len; ++i) arr[(size_t)i] = 0.05 + r.u01() * 9.0;
      std::vector<double> got;
      int rc = -7;
      CallOut co = call(false, [&] {
        int nn = len;
        ::masa_set_array(n.c_str(), &nn, arr.data());
        rc = MASA::masa_get_vec<double>(n, got);
      });
      if (unexpected(co, "C17", "set_array")) return;
      orc_eval("C17");
      bool same = rc == 0 && (int)got.size() == len;
      for (int i = 0; same && i < len; ++i) same = bits_of(got[(size_t)i]) == bits_of(arr[(size_t)i]);
      inst.v[n].assign(got.begin(), got.end());
      if (!same) viol("C17", "C17.set_array", "masa_set_array", "array of length " + std::to_string(len) + " set through C reads back with length " + std::to_string(got.size()) + " (status " + std::to_string(rc) + ") through C++");
      return;
    }
    case 4: {  // get_array through C against get_vec through C++, known and unknown names
      bool unknown = (st.u & 3) == 0 || vn.empty();
      std::string n = unknown ? std::string(g_unknown_names[(size_t)st.a % (size_t)g_num_unknown]) : vn[(size_t)st.a % vn.size()];
      if (unknown && inst.v.count(n)) unknown = false;
      double buf[64];
      for (double& d : buf) d = -777.0;
      int cn = (int)(st.u >> 8) % 8, crc = -7, xrc = -7;  // whatever the caller's int held before (often a shorter length)
      std::vector<double> got;
      CallOut co = call(false, [&] {
        crc = ::masa_get_array(n.c_str(), &cn, buf);
        xrc = MASA::masa_get_vec<double>(n, got);
      });
      if (unexpected(co, "C17", "get_array")) return;
      orc_eval("C17");
      if (crc != xrc) viol("C17", "C17.get_array.status", "masa_get_array", "C status " + std::to_string(crc) + " vs C++ status " + std::to_string(xrc) + (unknown ? " (unknown name)" : ""));
      {
        bool same = cn == (int)got.size();
        for (int i = 0; same && i < cn && i < 64; ++i) same = bits_of(buf[i]) == bits_of(got[(size_t)i]);
        if (!same) viol("C17", "C17.get_array", "masa_get_array", "C array (length " + std::to_string(cn) + ") differs from the C++ vector (length " + std::to_string(got.size()) + ")");
      }
      return;
    }
    case 5: {  // get_name into the caller's buffer, get_dimension
      char buf[256];
      memset(buf, 0, sizeof buf);
      strcpy(buf, "caller-buffer");
      std::string x;
      int cd = -9, xd = -9, crc = -7;
      CallOut co = call(false, [&] {
        crc = ::masa_get_name(buf);
        MASA::masa_get_name<double>(&x);
        ::masa_get_dimension(&cd);
        MASA::masa_get_dimension<double>(&xd);
      });
      if (unexpected(co, "C17", "get_name")) return;
      orc_eval("C17");
      buf[255] = 0;
      if (x != buf) viol("C17", "C17.get_name", "masa_get_name", std::string("caller's buffer holds \"") + buf + "\" but the solution name is " + x);
      if (crc != 0) viol("C17", "C17.get_name.status", "masa_get_name", "status " + std::to_string(crc));
      if (cd != xd) viol("C17", "C17.get_dimension", "masa_get_dimension", "C " + std::to_string(cd) + " vs C++ " + std::to_string(xd));
      return;
    }
    case 6: {  // sanity_check status
      if (inst.poisoned || sol.name == "masa_test_function") break;
      int c = -7, x = -7;
      CallOut co = call(false, [&] {
        c = ::masa_sanity_check();
        x = MASA::masa_sanity_check<double>();
      });
      if (unexpected(co, "C17", "sanity_check")) return;
      orc_eval("C17");
      if (c != x) viol("C17", "C17.sanity.status", "masa_sanity_check", "C status " + std::to_string(c) + " vs C++ status " + std::to_string(x));
      return;
    }
    case 7: {  // init_param status (the demo fixture reports 2 by design)
      int c = -7, x = -7;
      CallOut co = call(false, [&] {
        c = ::masa_init_param();
        x = MASA::masa_init_param<double>();
      });
      if (unexpected(co, "C17", "init_param")) return;
      orc_eval("C17");
      if (sol.name == "masa_test_function") inst.poisoned = true;
      inst.p = inst.p0;
      inst.v = inst.v0;
      inst.wild.clear();
      for (auto& kv : inst.p)
        if (bits_of((double)kv.second) == bits_of(marker<double>())) inst.wild.insert(kv.first);
      if (c != x) viol("C17", "C17.init_param.status", "masa_init_param", "C status " + std::to_string(c) + " vs C++ status " + std::to_string(x));
      if (!sol.fixture) verify_selected<double>(0, inst, "C17", "C17.init_param.frame");
      else {
        // the demo fixture's init_var writes its own parameters; adopt what is there
        for (auto& kv : inst.p) {
          double g = 0;
          const std::string n = kv.first;
          CallOut cg = call(false, [&] { g = MASA::masa_get_param<double>(n); });
          if (unexpected(cg, "C17", "get_param")) return;
          kv.second = g;
        }
      }
      return;
    }
    case 8: {  // text listings: identical output through both interfaces
      CallOut c1 = call(false, [&] { ::masa_list_mms(); });
      CallOut c2 = call(false, [&] { MASA::masa_list_mms<double>(); });
      CallOut c3 = call(false, [&] { ::masa_display_param(); });
      CallOut c4 = call(false, [&] { MASA::masa_display_param<double>(); });
      CallOut c5 = call(false, [&] { ::masa_display_array(); });
      CallOut c6 = call(false, [&] { MASA::masa_display_vec<double>(); });
      if (unexpected(c1, "C17", "list") || unexpected(c2, "C17", "list") || unexpected(c3, "C17", "display") || unexpected(c4, "C17", "display") || unexpected(c5, "C17", "display") || unexpected(c6, "C17", "display")) return;
      orc_eval("C17");
      if (c1.out != c2.out) viol("C17", "C17.list", "masa_list_mms", "C and C++ listings differ");
      if (c3.out != c4.out) viol("C17", "C17.display_param", "masa_display_param", "C and C++ listings differ");
      if (c5.out != c6.out) viol("C17", "C17.display_array", "masa_display_array", "C and C++ listings differ");
      return;
    }
    case 9: {  // purge through C
      if (sol.fixture) break;
      CallOut co = call(false, [&] { ::masa_purge_default_param(); });
      if (unexpected(co, "C17", "purge")) return;
      orc_eval("C17");
      for (auto& kv : inst.p) {
        kv.second = marker<double>();
        inst.wild.insert(kv.first);
      }
      verify_selected<double>(0, inst, "C17", "C17.purge");
      return;
    }
  }
  ++skipped;
}

template <typename S>
void Exec::do_step(const Step& st, const Client& cl, int depth) {
  const bool C = cl.lang == 1;
  const int prec = cl.prec;
  Reg& R = reg[prec];
  const std::string handle = cl.handles.empty() ? std::string("h") : cl.handles[(size_t)(st.h < 0 ? 0 : st.h) % cl.handles.size()];
  // nested steps never touch the instance under evaluation
  if (depth > 0 && g_guard_prec == prec) {
    const bool nested_eval = st.op == OP_EVAL_SUP || st.op == OP_EVAL_UNSUP;
    (void)nested_eval;  // evaluating is read-only by C10, so a callback may evaluate any handle, also the one being evaluated
    if ((st.op == OP_INIT && handle == g_guard_handle) || (is_mutator(st.op) && R.has_cur && R.cur == g_guard_handle)) {
      ++skipped;
      return;
    }
  }
  Inst* cur = R.has_cur ? &R.m[R.cur] : nullptr;
  std::vector<std::string> pn, vn;
  if (cur) {
    for (auto& kv : cur->p) pn.push_back(kv.first);
    for (auto& kv : cur->v) vn.push_back(kv.first);
  }
  auto unknown_name = [&](int a, bool vec) -> std::string {
    if (cur && a % 7 == 5) {  // a registered name padded with blanks (what a Fortran caller might pass): not that name
      const std::vector<std::string>& names = vec ? vn : pn;
      if (!names.empty()) {
        std::string n = names[(size_t)a % names.size()] + std::string((size_t)(1 + a % 3), ' ');
        if (!(vec ? cur->v.count(n) : cur->p.count(n))) return n;
      }
    }
    if (!C && cur && a % 7 == 3) {  // a registered name, a NUL byte, more characters: not that name
      const std::vector<std::string>& names = vec ? vn : pn;
      if (!names.empty()) {
        std::string n = names[(size_t)a % names.size()];
        n.push_back('\0');
        n += "x";
        return n;
      }
    }
    for (int t = 0; t < g_num_unknown; ++t) {
      std::string n = g_unknown_names[(size_t)(a + t) % (size_t)g_num_unknown];
      if (cur && !vec && cur->p.count(n)) continue;
      if (cur && vec && cur->v.count(n)) continue;
      return n;
    }
    return "nope";
  };
  switch (st.op) {
    case OP_INIT:
    case OP_INIT_UNKNOWN: {
      do_init<S>(st, cl, handle, st.s);
      return;
    }
    case OP_SELECT:
    case OP_SELECT_UNKNOWN: {
      const std::string h = st.op == OP_SELECT ? (C ? std::string(handle.c_str()) : handle) : (C ? std::string(st.s.c_str()) : st.s);
      auto prim = [&] {
        if (C)
          ::masa_select_mms(h.c_str());
        else
          MASA::masa_select_mms<S>(h);
      };
      if (!R.m.count(h)) {
        size_t nv0 = viols.size();
        fatal_protocol("F2a_select_unknown_handle", "masa_select_mms", prim);
        if (C && !stop) c_abort_mismatch(nv0, "masa_select_mms", [&] { MASA::masa_select_mms<double>(h); });
        return;
      }
      CallOut co = call(false, prim);
      if (unexpected(co, "C12", "select_mms")) return;
      R.has_cur = true;
      R.cur = h;
      Inst& inst = R.m[h];
      // silent comparison of what is selected now with the model's instance of this handle
      auto matches = [&]() -> int {  // 1 match, 0 mismatch, -1 abort
        std::string nm;
        CallOut c2 = call(false, [&] { MASA::masa_get_name<S>(&nm); });
        if (c2.oc != OC_RETURN) return -1;
        if (nm != g_sols[inst.sol].name) return 0;
        // isolation probe: the parameter name that was touched last in this registry (through whatever handle),
        // read first thing after the switch, then every parameter
        std::vector<std::string> order;
        if (!last_name[prec].empty() && inst.p.count(last_name[prec])) order.push_back(last_name[prec]);
        for (auto& kv : inst.p) order.push_back(kv.first);
        for (const std::string& n : order) {
          S got = S(0);
          CallOut c3 = call(false, [&] { got = MASA::masa_get_param<S>(n); });
          if (c3.oc != OC_RETURN) return -1;
          if (bits_of(got) != bits_of(ms<S>(inst.p[n]))) return 0;
        }
        return 1;
      };
      orc_eval("C12");
      int m = matches();
      if (m == 0 && C) {
        // attribute: does the C++ select reach the handle in the same state?
        CallOut cx = call(false, [&] { MASA::masa_select_mms<S>(h); });
        if (unexpected(cx, "C12", "select_mms")) return;
        orc_eval("C17");
        if (matches() == 1) {
          viol("C17", "C17.select", "masa_select_mms", "after the C masa_select_mms(\"" + h + "\") the selected instance is not the one registered under that handle; the C++ select reaches it");
          // the C function is one of the two documented ways to select (tests/c_misc.c): it did not make the handle the target
          viol("C12", "C12.select.c_api", "masa_select_mms", "the C masa_select_mms(\"" + h + "\") did not make that handle the target of the calls that follow (the C++ select does)");
          return;
        }
      }
      if (m < 0) {
        viol("C12", "C12.unexpected_abort", "select", "a read-back after select aborted");
        stop = true;
        return;
      }
      std::string nm;
      CallOut c2 = call(false, [&] { MASA::masa_get_name<S>(&nm); });
      if (unexpected(c2, "C12", "get_name")) return;
      if (nm != g_sols[inst.sol].name) {
        viol("C12", "C12.select.name", "select", "after selecting \"" + h + "\" the selected solution is " + nm + ", expected " + g_sols[inst.sol].name);
        stop = true;
        return;
      }
      if (!last_name[prec].empty() && inst.p.count(last_name[prec])) {
        const std::string n = last_name[prec];
        S got = S(0);
        CallOut c3 = call(false, [&] { got = MASA::masa_get_param<S>(n); });
        if (unexpected(c3, "C12", "get_param")) return;
        if (bits_of(got) != bits_of(ms<S>(inst.p[n]))) {
          viol("C12", "C12.select.isolation", g_sols[inst.sol].name + ":" + n, "first read after switching to \"" + h + "\": parameter " + n + " reads " + fmt_ld(got) + " but this handle holds " + fmt_ld(inst.p[n]) + " (the name was last touched through another handle)");
          inst.p[n] = got;
        }
      }
      verify_selected<S>(prec, inst, "C12", "C12.select.value");
      return;
    }
    case OP_LIST: {
      check_list<S>(prec, "C12", "C12.list", C);
      return;
    }
    case OP_GET_NAME:
    case OP_GET_DIM: {
      std::string nm;
      int dim = -9;
      auto prim = [&] {
        MASA::masa_get_name<S>(&nm);
        if (C)
          ::masa_get_dimension(&dim);
        else
          MASA::masa_get_dimension<S>(&dim);
      };
      if (!cur) {
        fatal_protocol("F2c_call_before_init", st.op == OP_GET_NAME ? "masa_get_name" : "masa_get_dimension", [&] {
          if (st.op == OP_GET_NAME)
            MASA::masa_get_name<S>(&nm);
          else if (C)
            ::masa_get_dimension(&dim);
          else
            MASA::masa_get_dimension<S>(&dim);
        });
        return;
      }
      CallOut co = call(false, prim);
      if (unexpected(co, "C12", "get_name")) return;
      orc_eval("C12");
      const Sol& sol = g_sols[cur->sol];
      if (nm != sol.name) viol("C12", "C12.get_name", "get_name", "masa_get_name returns " + nm + " while \"" + R.cur + "\" (a " + sol.name + ") is selected");
      if (dim != sol.dim) viol("C12", "C12.get_dimension", "get_dimension", "masa_get_dimension returns " + std::to_string(dim) + " for " + sol.name);
      return;
    }
    case OP_PRINTID: {
      do_printid();
      return;
    }
    case OP_SET: {
      if (!cur) {
        fatal_protocol("F2c_call_before_init", "masa_set_param", [&] {
          if (C)
            ::masa_set_param("A_x", 1.0);
          else
            MASA::masa_set_param<S>("A_x", S(1));
        });
        return;
      }
      if (pn.empty() || !cur->discovered) {
        ++skipped;
        return;
      }
      const Sol& sol = g_sols[cur->sol];
      std::vector<std::pair<std::string, S>> writes;
      bool admissible = st.b == 0;
      if (st.b == 2 && !sol.fixture) {
        for (const std::string& n : pn) writes.push_back(std::make_pair(n, S(st.val)));
        admissible = false;
      } else if (st.b == 3 && !sol.fixture && sol.name != "sod_1d") {
        // a signed zero: +0, or the opposite sign if some parameter already holds a zero (numerically equal, other bits);
        // evaluations stay allowed (divisions by zero give inf/NaN, which compare bit for bit like anything else)
        std::string n = pn[(size_t)st.a % pn.size()];
        S v = S(0.0);
        std::vector<std::string> zeros;
        for (auto& kv : cur->p)
          if (kv.second == 0.0L) zeros.push_back(kv.first);
        if (!zeros.empty() && (st.a / 7) % 3 != 0) {  // usually flip the sign of a zero that is stored already
          n = zeros[(size_t)st.a % zeros.size()];
          v = std::signbit((S)cur->p[n]) ? S(0.0) : S(-0.0);
        }
        writes.push_back(std::make_pair(n, v));
        admissible = true;
      } else
      if (sol.name == "sod_1d" && admissible) {
        // any Gamma > 1 with 0 < mu < 1 keeps the root of sod_1d's pressure function bracketed, so mu need not be
        // the value derived from Gamma (an evaluator that re-derives it is then visible)
        // The larger factors move mu far enough to move the post-shock pressure (the bisection in sod_1d stops early,
        // so a 10% change of mu often leaves the root where it was); all products stay below 1 for the Gamma pool.
        static const double mufac[8] = {1.0, 1.0, 0.9, 1.1, 2.5, 4.0, 3.0, 0.5};
        S g = S(g_sod_gamma[(size_t)st.c % 6]);
        g += g * S((st.a / 4) % 3) * std::numeric_limits<S>::epsilon();  // 0, 1 or 2 ulps away: "changed, but only in the last bits"
        S mu = ((g - S(1.e0)) / (g + S(1.e0))) * S(mufac[(size_t)st.a % 8]);
        // one store in three leaves Gamma untouched and moves mu alone (state keyed on Gamma only is then stale)
        if ((st.a / 8) % 3 != 0 || !cur->wild.empty()) writes.push_back(std::make_pair(std::string("Gamma"), g));
        writes.push_back(std::make_pair(std::string("mu"), mu));
      } else if (sol.name == "sod_1d" || sol.fixture) {
        // wild values on sod_1d could make a later (skipped) evaluation fatal; keep them but mark the instance
        const std::string n = pn[(size_t)st.a % pn.size()];
        writes.push_back(std::make_pair(n, S(st.val)));
        admissible = false;
      } else {
        const std::string n = pn[(size_t)st.a % pn.size()];
        S v;
        if (admissible) {
          long double d = cur->p0.count(n) ? cur->p0[n] : 1.0L;
          v = this->template admissible<S>(d, st.c);
          if (bits_of(ms<S>(d)) == bits_of(marker<S>())) admissible = false;
        } else {
          v = S(st.val);
          if (prec == 1 && (st.k & 1)) v = (S)((long double)st.val * 1e-2000L / 3.0L);  // four-digit exponent, all digits significant
        }
        writes.push_back(std::make_pair(n, v));
      }
      for (auto& w : writes) {
        const std::string n = w.first;
        const S v = w.second;
        if (!cur->p.count(n)) continue;
        S back = S(0);
        CallOut co = call(false, [&] {
          if (C)
            ::masa_set_param(n.c_str(), (double)v);
          else
            MASA::masa_set_param<S>(n, v);
        });
        if (unexpected(co, "C11", "set_param")) return;
        CallOut c2 = call(false, [&] { back = MASA::masa_get_param<S>(n); });
        if (unexpected(c2, "C11", "get_param")) return;
        orc_eval("C11");
        TRACE("set %s = %s (%s)", n.c_str(), fmt_ld(v).c_str(), admissible ? "admissible" : "wild");
        last_name[prec] = n;
        if (bits_of(back) != bits_of(v)) {
          bool c17 = false;
          if (C) {  // attribute: does the C++ setter work in the same state?
            S b2 = S(0);
            CallOut c3 = call(false, [&] {
              MASA::masa_set_param<S>(n, v);
              b2 = MASA::masa_get_param<S>(n);
            });
            if (unexpected(c3, "C11", "set_param")) return;
            orc_eval("C17");
            if (bits_of(b2) == bits_of(v)) {
              c17 = true;
              back = b2;
              viol("C17", "C17.set_param", "masa_set_param", "value set through C reads back differently, the C++ setter works");
              viol("C11", "C11.roundtrip.c_api", sol.name + ":" + n, "masa_set_param (C) of " + fmt_ld(v) + " is not what masa_get_param returns afterwards");
            }
          }
          if (!c17) viol("C11", "C11.roundtrip", sol.name + ":" + n, "set " + fmt_ld(v) + " then get returns " + fmt_ld(back));
        }
        cur->p[n] = back;
        if (admissible && bits_of(back) != bits_of(marker<S>()))
          cur->wild.erase(n);
        else
          cur->wild.insert(n);
      }
      verify_selected<S>(prec, *cur, "C11", "C11.frame.set");
      return;
    }
    case OP_GET: {
      if (!cur) {
        fatal_protocol("F2c_call_before_init", "masa_get_param", [&] {
          if (C)
            ::masa_get_param("A_x");
          else
            MASA::masa_get_param<S>("A_x");
        });
        return;
      }
      if (pn.empty()) {
        ++skipped;
        return;
      }
      const std::string n = pn[(size_t)st.a % pn.size()];
      S x = S(0), c = S(0);
      CallOut co = call(false, [&] {
        x = MASA::masa_get_param<S>(n);
        if (C) c = (S)::masa_get_param(n.c_str());
      });
      if (unexpected(co, "C11", "get_param")) return;
      orc_eval("C11");
      log.u64(bits_of(x).lo);
      last_name[prec] = n;
      if (C) {
        orc_eval("C17");
        if (bits_of(c) != bits_of(x)) {
          viol("C17", "C17.get_param", "masa_get_param", "C returns " + fmt_ld(c) + ", C++ " + fmt_ld(x));
          if (bits_of(c) != bits_of(ms<S>(cur->p[n])))
            viol("C11", "C11.get.c_api", g_sols[cur->sol].name + ":" + n, "masa_get_param (C) returns " + fmt_ld(c) + " but the value last set is " + fmt_ld(cur->p[n]));
        }
      }
      if (bits_of(x) != bits_of(ms<S>(cur->p[n]))) {
        viol("C11", "C11.get", g_sols[cur->sol].name + ":" + n, "get returns " + fmt_ld(x) + " but the value last set is " + fmt_ld(cur->p[n]));
        cur->p[n] = x;
      }
      return;
    }
    case OP_SET_UNKNOWN:
    case OP_GET_UNKNOWN: {
      const std::string n = unknown_name(st.a, false);
      S got = S(0);
      auto prim = [&] {
        if (st.op == OP_SET_UNKNOWN) {
          if (C)
            ::masa_set_param(n.c_str(), st.val);
          else
            MASA::masa_set_param<S>(n, S(st.val));
        }
        if (C)
          got = (S)::masa_get_param(n.c_str());
        else
          got = MASA::masa_get_param<S>(n);
      };
      if (!cur) {
        fatal_protocol("F2c_call_before_init", st.op == OP_SET_UNKNOWN ? "masa_set_param" : "masa_get_param", prim);
        return;
      }
      CallOut co = call(false, prim);
      if (unexpected(co, "C11", "unknown name")) return;
      fire("F4_unknown_parameter_name");
      orc_eval("C11");
      if (C) {
        double x = 0;
        CallOut cx = call(false, [&] { x = MASA::masa_get_param<double>(n); });
        if (unexpected(cx, "C17", "get_param")) return;
        orc_eval("C17");
        if (bits_of((double)got) != bits_of(x))
          viol("C17", "C17.get_param", "masa_get_param", "for the name \"" + n + "\" the C masa_get_param returns " + fmt_ld(got) + ", the C++ one " + fmt_ld(x));
      }
      if (bits_of(got) != bits_of(S(-20)))
        viol("C11", st.op == OP_SET_UNKNOWN ? "C11.unknown.set.noinsert" : "C11.unknown.get", "unknown", "masa_get_param of the unknown name \"" + n + "\" returns " + fmt_ld(got) + " instead of -20");
      if (st.op == OP_SET_UNKNOWN) verify_selected<S>(prec, *cur, "C11", "C11.unknown.set");
      return;
    }
    case OP_INIT_PARAM: {
      int rc = -7, rcc = -7;
      auto prim = [&] {
        if (C) rcc = ::masa_init_param();
        rc = MASA::masa_init_param<S>();
      };
      if (!cur) {
        fatal_protocol("F2c_call_before_init", "masa_init_param", prim);
        return;
      }
      const Sol& sol = g_sols[cur->sol];
      if (sol.fixture) {
        ++skipped;
        return;
      }
      CallOut co = call(false, prim);
      if (unexpected(co, "C11", "init_param")) return;
      orc_eval("C11");
      if (C) {
        orc_eval("C17");
        if (rcc != rc) viol("C17", "C17.init_param.status", "masa_init_param", "C status " + std::to_string(rcc) + " vs C++ status " + std::to_string(rc));
      }
      if (rc != 0) viol("C11", "C11.initparam.status", sol.name, "masa_init_param returns " + std::to_string(rc));
      cur->p = cur->p0;
      cur->v = cur->v0;
      cur->wild.clear();
      for (auto& kv : cur->p)
        if (bits_of(ms<S>(kv.second)) == bits_of(marker<S>())) cur->wild.insert(kv.first);
      verify_selected<S>(prec, *cur, "C11", "C11.initparam.restore");
      return;
    }
    case OP_PURGE: {
      auto prim = [&] {
        if (C)
          ::masa_purge_default_param();
        else
          MASA::masa_purge_default_param<S>();
      };
      if (!cur) {
        fatal_protocol("F2c_call_before_init", "masa_purge_default_param", prim);
        return;
      }
      if (g_sols[cur->sol].fixture) {
        ++skipped;
        return;
      }
      CallOut co = call(false, prim);
      if (unexpected(co, "C11", "purge")) return;
      for (auto& kv : cur->p) {
        kv.second = marker<S>();
        cur->wild.insert(kv.first);
      }
      verify_selected<S>(prec, *cur, "C11", "C11.purge");
      return;
    }
    case OP_SANITY: {
      int rc = -7, rcc = -7;
      auto prim = [&] {
        if (C) rcc = ::masa_sanity_check();
        rc = MASA::masa_sanity_check<S>();
      };
      if (!cur) {
        fatal_protocol("F2c_call_before_init", "masa_sanity_check", prim);
        return;
      }
      const Sol& sol = g_sols[cur->sol];
      if (cur->poisoned || sol.name == "masa_test_function" || !cur->discovered) {
        ++skipped;
        return;
      }
      CallOut co = call(false, prim);
      if (unexpected(co, "C11", "sanity_check")) return;
      bool bad = false;
      for (auto& kv : cur->p)
        if (bits_of(ms<S>(kv.second)) == bits_of(marker<S>())) bad = true;
      for (auto& kv : cur->v)
        if (kv.second.empty()) bad = true;
      orc_eval("C11");
      log.i32(rc);
      if ((rc == 0) != !bad)
        viol("C11", "C11.sanity", sol.name, "masa_sanity_check returns " + std::to_string(rc) + " while the model " + (bad ? "holds" : "holds no") + " uninitialised scalar / empty vector");
      if (C) {
        orc_eval("C17");
        if (rcc != rc) {
          viol("C17", "C17.sanity.status", "masa_sanity_check", "C status " + std::to_string(rcc) + " vs C++ status " + std::to_string(rc));
          if ((rcc == 0) != !bad) viol("C11", "C11.sanity.c_api", sol.name, "masa_sanity_check (C) returns " + std::to_string(rcc));
        }
      }
      return;
    }
    case OP_DISPLAY_PARAM:
    case OP_DISPLAY_VEC: {
      const bool vec = st.op == OP_DISPLAY_VEC;
      auto prim = [&] {
        if (vec) {
          if (C)
            ::masa_display_array();
          else
            MASA::masa_display_vec<S>();
        } else {
          if (C)
            ::masa_display_param();
          else
            MASA::masa_display_param<S>();
        }
      };
      if (!cur) {
        fatal_protocol("F2c_call_before_init", vec ? "masa_display_vec" : "masa_display_param", prim);
        return;
      }
      if (!cur->discovered) {
        ++skipped;
        return;
      }
      CallOut co = call(false, prim);
      if (unexpected(co, "C11", "display")) return;
      orc_eval("C11");
      std::vector<long> sizes;
      std::vector<std::string> names = parse_display_names(co.out, vec ? " is size: " : " is set to: ", vec ? &sizes : nullptr);
      std::vector<std::string> want = vec ? vn : pn;
      std::sort(names.begin(), names.end());
      if (names != want) viol("C11", vec ? "C11.display.vecnames" : "C11.display.names", g_sols[cur->sol].name, "listing does not show exactly the registered names");
      else if (vec) {
        names = parse_display_names(co.out, " is size: ", nullptr);
        for (size_t i = 0; i < names.size(); ++i)
          if (sizes[i] != (long)cur->v[names[i]].size())
            viol("C11", "C11.display.vecsize", g_sols[cur->sol].name + ":" + names[i], "listed size " + std::to_string(sizes[i]) + " but the vector last set has " + std::to_string(cur->v[names[i]].size()) + " entries");
      }
      return;
    }
    case OP_SET_VEC:
    case OP_SET_VEC_UNKNOWN: {
      if (st.op == OP_SET_VEC && st.len == -4 && cur && cur->discovered && vn.size() > 1) {
        // the usual way to resize a solution with several vector parameters: all of them to one common new length
        Step one = st;
        one.len = 1 + (int)(st.u % 40);
        for (size_t i = 0; i < vn.size() && !stop; ++i) {
          one.a = (int)i;
          one.u = st.u + 0x9E3779B97F4A7C15ull * (i + 1);
          do_step<S>(one, cl, depth);
        }
        return;
      }
      const bool unk = st.op == OP_SET_VEC_UNKNOWN;
      int len = st.len < 0 ? 0 : st.len % 41;
      if (cur && !vn.empty() && st.len == -1) len = (int)cur->v[vn[(size_t)st.a % vn.size()]].size() % 41;            // same length, other values
      if (cur && !vn.empty() && st.len == -2) len = (int)cur->v[vn[((size_t)st.a + vn.size() - 1) % vn.size()]].size() % 41;  // length of the neighbouring vector
      std::vector<S> vals((size_t)len);
      Rng r(st.u);
      for (int i = 0; i < len; ++i) {
        vals[(size_t)i] = S(0.05 + r.u01() * 9.0) + (prec == 1 ? S(1) / S(3) * S(1e-3) : S(0));
        if (r.uni(12) == 0) vals[(size_t)i] = r.bern(0.5) ? S(0.0) : S(-0.0);
      }
      if (cur && !vn.empty() && st.len == -3 && !unk) {  // what is stored now, with every zero's sign flipped (== but other bits)
        const std::vector<long double>& now = cur->v[vn[(size_t)st.a % vn.size()]];
        vals.assign(now.begin(), now.end());
        bool any = false;
        for (S& x : vals)
          if (x == S(0)) {
            x = -x;
            any = true;
          }
        if (!any && !vals.empty()) vals[0] = S(0.0);
        len = (int)vals.size();
      }
      std::string n = unk ? unknown_name(st.a, true) : (vn.empty() ? std::string("vec_data") : vn[(size_t)st.a % vn.size()]);
      auto prim = [&] {
        if (C) {
          int nn = len;
          std::vector<double> arr((size_t)len + 1, 0.0);
          for (int i = 0; i < len; ++i) arr[(size_t)i] = (double)vals[(size_t)i];
          ::masa_set_array(n.c_str(), &nn, arr.data());
        } else
          MASA::masa_set_vec<S>(n, vals);
      };
      if (!cur) {
        fatal_protocol("F2c_call_before_init", "masa_set_vec", prim);
        return;
      }
      if (!cur->discovered || (!unk && vn.empty())) {
        ++skipped;
        return;
      }
      CallOut co = call(false, prim);
      if (unexpected(co, "C11", "set_vec")) return;
      orc_eval("C11");
      if (unk) {
        fire("F4_unknown_parameter_name");
        verify_selected<S>(prec, *cur, "C11", "C11.unknown.setvec");
        return;
      }
      if (C) orc_eval("C17");
      std::vector<S> got;
      int rc = -7;
      CallOut c2 = call(false, [&] { rc = MASA::masa_get_vec<S>(n, got); });
      if (unexpected(c2, "C11", "get_vec")) return;
      bool same = rc == 0 && got.size() == vals.size();
      for (size_t i = 0; same && i < got.size(); ++i) same = bits_of(got[i]) == bits_of(vals[i]);
      TRACE("set_vec %s len=%d", n.c_str(), len);
      if (!same) {
        bool c17 = false;
        if (C) {
          std::vector<S> g2;
          int rc2 = -7;
          CallOut c3 = call(false, [&] {
            MASA::masa_set_vec<S>(n, vals);
            rc2 = MASA::masa_get_vec<S>(n, g2);
          });
          if (unexpected(c3, "C11", "set_vec")) return;
          bool s2 = rc2 == 0 && g2.size() == vals.size();
          for (size_t i = 0; s2 && i < g2.size(); ++i) s2 = bits_of(g2[i]) == bits_of(vals[i]);
          if (s2) {
            c17 = true;
            got = g2;
            viol("C17", "C17.set_array", "masa_set_array", "array set through C reads back differently, the C++ setter works");
            viol("C11", "C11.vec.roundtrip.c_api", g_sols[cur->sol].name + ":" + n, "masa_set_array (C) of length " + std::to_string(vals.size()) + " does not read back as set");
          }
        }
        if (!c17) viol("C11", "C11.vec.roundtrip", g_sols[cur->sol].name + ":" + n, "set_vec of length " + std::to_string(vals.size()) + " reads back with length " + std::to_string(got.size()) + " (status " + std::to_string(rc) + ")");
      }
      cur->v[n].assign(got.begin(), got.end());
      verify_selected<S>(prec, *cur, "C11", "C11.frame.setvec");
      return;
    }
    case OP_GET_VEC:
    case OP_GET_VEC_UNKNOWN: {
      const bool unk = st.op == OP_GET_VEC_UNKNOWN;
      std::string n = unk ? unknown_name(st.a, true) : (vn.empty() ? std::string("vec_data") : vn[(size_t)st.a % vn.size()]);
      std::vector<S> got;
      int rc = -7, crc = -7, cn = (int)(st.u >> 8) % 8;  // whatever the caller's int held before
      double buf[64];
      for (double& d : buf) d = -777.0;
      auto prim = [&] {
        rc = MASA::masa_get_vec<S>(n, got);
        if (C) crc = ::masa_get_array(n.c_str(), &cn, buf);
      };
      if (!cur) {
        fatal_protocol("F2c_call_before_init", "masa_get_vec", prim);
        return;
      }
      if (!cur->discovered || (!unk && vn.empty())) {
        ++skipped;
        return;
      }
      CallOut co = call(false, prim);
      if (unexpected(co, "C11", "get_vec")) return;
      orc_eval("C11");
      if (C) {
        orc_eval("C17");
        if (crc != rc) viol("C17", "C17.get_array.status", "masa_get_array", "C status " + std::to_string(crc) + " vs C++ status " + std::to_string(rc) + (unk ? " (unknown name)" : ""));
        {
          bool same = cn == (int)got.size();
          for (int i = 0; same && i < cn && i < 64; ++i) same = bits_of(buf[i]) == bits_of((double)got[(size_t)i]);
          if (!same) {
            viol("C17", "C17.get_array", "masa_get_array", "C array (length " + std::to_string(cn) + ") differs from the C++ vector (length " + std::to_string(got.size()) + ")");
            if (!unk) viol("C11", "C11.vec.get.c_api", g_sols[cur->sol].name + ":" + n, "masa_get_array (C) does not deliver the vector last set");
          }
        }
      }
      if (unk) {
        fire("F4_unknown_parameter_name");
        verify_selected<S>(prec, *cur, "C11", "C11.unknown.getvec");
        return;
      }
      const std::vector<long double>& want = cur->v[n];
      bool same = rc == 0 && got.size() == want.size();
      for (size_t i = 0; same && i < got.size(); ++i) same = bits_of(got[i]) == bits_of(ms<S>(want[i]));
      if (!same) {
        viol("C11", "C11.vec.get", g_sols[cur->sol].name + ":" + n, "get_vec returns length " + std::to_string(got.size()) + " (status " + std::to_string(rc) + "), the vector last set has length " + std::to_string(want.size()));
        cur->v[n].assign(got.begin(), got.end());
      }
      return;
    }
    case OP_EVAL:
    case OP_EVAL_SUP:
    case OP_EVAL_UNSUP: {
      int ev = ((st.a % SIM_NUM_EVALS) + SIM_NUM_EVALS) % SIM_NUM_EVALS;
      if (cur && st.op != OP_EVAL) {
        const Sol& sol = g_sols[cur->sol];
        const std::vector<int>& lst = st.op == OP_EVAL_SUP ? sol.sup : sol.unsup;
        if (lst.empty()) {
          ++skipped;
          return;
        }
        ev = lst[(size_t)(st.a < 0 ? -st.a : st.a) % lst.size()];
      }
      if (depth == 0) {
        g_guard_prec = prec;
        g_guard_handle = R.has_cur ? R.cur : std::string();
      }
      do_eval<S>(st, cl, ev, depth);
      if (depth == 0) g_guard_prec = -1;
      return;
    }
    case OP_PASS_FUNC: {
      S r = S(0);
      auto prim = [&] { r = MASA::pass_func<S>(CbFn<S>::get(), S(st.val)); };
      if (!cur) {
        ++skipped;  // pass_func's dependence on a solution is incidental (DESIGN.md C16)
        return;
      }
      CbCtx saved = g_cb;
      g_cb.ex = this;
      g_cb.kind = st.c;
      g_cb.step = depth == 0 ? &st : nullptr;
      g_cb.invocations = 0;
      g_cb.depth = depth;
      g_guard_prec = -1;
      CallOut co = call(false, prim);
      g_cb = saved;
      if (unexpected(co, "C12", "pass_func")) return;
      log.u64(bits_of(r).lo);
      return;
    }
    case OP_MIRROR: {
      do_mirror<S>(st, cl);
      return;
    }
    case OP_TWIN: {
      do_twin<S>(st, cl);
      return;
    }
    case OP_AUDIT: {
      audit("C12", "C12.audit");
      return;
    }
    case OP_SWEEP: {
      if (!cur || !cur->at_defaults() || g_sols[cur->sol].fixture) {
        ++skipped;
        return;
      }
      const Sol& sol = g_sols[cur->sol];
      const std::string h = R.cur;
      for (int ev : sol.sup) {
        Step es;
        es.op = OP_EVAL;
        es.client = st.client;
        es.a = ev;
        es.b = 0;
        es.k = !strcmp(g_evals[ev].sig, "i") ? 2 : 1 + (int)(st.u % 2);
        es.c = 0;
        size_t before = purity.size();
        (void)before;
        // evaluate through the normal path (purity, frame), then the C14 post-condition on the value
        EvalArgs<S> a;
        for (int i = 0; i < 4; ++i) a.x[i] = S(g_points[0][i]);
        a.k = es.k;
        do_eval<S>(es, cl, ev, 1);
        if (stop) return;
        if (!strcmp(g_evals[ev].sig, "i")) {  // enumeration: every moment order 0..4000 once
          eval_abs_k = true;
          for (int k = 0; k <= 4000 && !stop; ++k) {
            es.k = k;
            skip_frame = k != 4000;
            do_eval<S>(es, cl, ev, 1);
          }
          skip_frame = false;
          eval_abs_k = false;
          es.k = 2;
          if (stop) return;
        }
        auto key = purity_key<S>(prec, R.m[h], ev, a, 0);
        auto it = purity.find(key);
        orc_eval("C14");
        if (it != purity.end()) {
          Bits b = it->second.first;
          bool finite;
          if (prec == 0) {
            double d;
            memcpy(&d, &b.lo, 8);
            finite = std::isfinite(d);
          } else {
            finite = (b.hi & 0x7FFF) != 0x7FFF;
          }
          if (!finite || b == bits_of(S(-1.33)))
            viol("C14", "C14.sweep", sol.name + ":" + g_evals[ev].shortname + "/" + g_evals[ev].sig,
                 std::string("documented evaluator returns ") + (finite ? "the -1.33 sentinel" : "a non-finite value") + " at an interior point with default parameters");
        }
      }
      return;
    }
    case OP_WALK_UNSUP: {
      if (!cur) {
        ++skipped;
        return;
      }
      const Sol& sol = g_sols[cur->sol];
      for (int ev : sol.unsup) {
        Step es;
        es.op = OP_EVAL;
        es.client = st.client;
        es.a = ev;
        es.b = (int)((st.u + (uint64_t)ev) & 3);
        es.k = (int)((st.u >> 8) + (uint64_t)ev) % 6;
        es.c = ev % 3;
        do_eval<S>(es, cl, ev, 1);
        if (stop) return;
      }
      return;
    }
    case OP_FRESH: {
      if (!cur || g_zyg_fd < 0 || g_sols[cur->sol].fixture || !cur->evaluable() || cur->recent.empty()) {
        ++skipped;
        return;
      }
      const Sol& sol = g_sols[cur->sol];
      const std::string h = R.cur;
      std::vector<Inst::Recent> todo(cur->recent.end() - (long)std::min<size_t>(3, cur->recent.size()), cur->recent.end());
      Client ccl = cl;
      ccl.lang = 0;
      for (const Inst::Recent& rc : todo) {
        Step es;
        es.op = OP_EVAL;
        es.client = st.client;
        es.a = rc.ev;
        es.k = rc.k;
        es.c = rc.cbkind;
        eval_abs = rc.x;
        eval_abs_k = true;
        do_eval<S>(es, ccl, rc.ev, 1);  // the value this session gives NOW for these parameters
        eval_abs = nullptr;
        eval_abs_k = false;
        if (stop) return;
        Inst& inst = R.m[h];
        EvalArgs<S> a;
        for (int i = 0; i < 4; ++i) a.x[i] = (S)rc.x[i];
        a.k = rc.k;
        auto it = purity.find(purity_key<S>(prec, inst, rc.ev, a, rc.cbkind));
        if (it == purity.end()) continue;
        FreshReq rq;
        rq.prec = prec;
        rq.ev = rc.ev;
        rq.k = rc.k;
        rq.cbkind = rc.cbkind;
        rq.sol = sol.name;
        for (int i = 0; i < 4; ++i) rq.x[i] = rc.x[i];
        for (auto& kv : inst.p) rq.p.push_back(kv);
        for (auto& kv : inst.v) rq.v.push_back(kv);
        Bits fb;
        if (!fresh_request(rq, fb)) continue;  // no reference: inconclusive
        fire("F7_fresh_process_restart");
        orc_eval("C10");
        log.u64(fb.lo);
        if (fb != it->second.first) {
          viol("C10", "C10.fresh", sol.name + ":" + g_evals[rc.ev].shortname + "/" + g_evals[rc.ev].sig,
               "this session evaluates to [" + fmt_bits(it->second.first) + "] but a fresh process given the same parameters and arguments evaluates to [" + fmt_bits(fb) + "]");
          orc_eval("C11");
          if (it->second.stale)
            viol("C11", "C11.lastset.stale", sol.name + ":" + g_evals[rc.ev].shortname + "/" + g_evals[rc.ev].sig,
                 "the instance keeps returning the bits it returned before its parameters were changed, a fresh process given the values last set returns other bits");
          // Attribution to C12 (isolation): the session's value is wrong for this handle's parameters; if it is
          // bit for bit what a fresh process computes from the parameters of ANOTHER live handle of the same
          // solution (same precision, other values), then that handle's state is visible through this one.
          int asked = 0;
          bool leaked = false;
          auto probe_one = [&](const std::string& oname, bool replaced, const FreshReq& ro, const std::string& what) {
            if (leaked || asked >= 12) return;
            Bits ob;
            ++asked;
            if (!fresh_request(ro, ob)) return;
            log.u64(ob.lo);
            if (ob == it->second.first && ob != fb) {
              leaked = true;
              orc_eval("C12");
              viol("C12", "C12.leak", sol.name + ":" + g_evals[rc.ev].shortname + "/" + g_evals[rc.ev].sig,
                   "handle '" + h + "' evaluates to [" + fmt_bits(it->second.first) + "], which is not what its own parameters give in a fresh process [" + fmt_bits(fb) +
                       "] but exactly what they give with " + what + (replaced ? " last held by the replaced instance of handle '" : " of handle '") + oname +
                       "' in their place: " + (replaced ? "the re-initialised handle is not independent of the instance it replaced" : "another handle's parameter state is visible through this one"));
            }
          };
          auto probe_other = [&](const std::string& oname, const Inst& oi, bool replaced) {
            if (leaked || oi.sol != inst.sol) return;
            if (oi.p == inst.p && oi.v == inst.v) return;
            FreshReq ro = rq;
            ro.p.assign(oi.p.begin(), oi.p.end());
            ro.v.assign(oi.v.begin(), oi.v.end());
            probe_one(oname, replaced, ro, "all parameters");
            // one vector, then one scalar, of the other instance in place of this handle's own
            for (size_t i = 0; i < rq.v.size(); ++i) {
              auto ov = oi.v.find(rq.v[i].first);
              if (ov == oi.v.end() || ov->second == rq.v[i].second) continue;
              FreshReq r1 = rq;
              r1.v[i].second = ov->second;
              probe_one(oname, replaced, r1, "the vector " + rq.v[i].first);
            }
            for (size_t i = 0; i < rq.p.size(); ++i) {
              auto op = oi.p.find(rq.p[i].first);
              if (op == oi.p.end() || bits_of(op->second) == bits_of(rq.p[i].second)) continue;
              FreshReq r1 = rq;
              r1.p[i].second = op->second;
              probe_one(oname, replaced, r1, "the parameter " + rq.p[i].first);
            }
          };
          for (auto& oh : R.m)
            if (oh.first != h) probe_other(oh.first, oh.second, false);
          for (auto gi = R.grave.rbegin(); gi != R.grave.rend(); ++gi) probe_other(gi->first, gi->second, true);
        }
      }
      return;
    }
    case OP_PREINIT_CALL: {
      if (cur) {
        ++skipped;
        return;
      }
      // solution-dependent functions that are not covered by their own step kinds in the empty state
      int f = st.a % 6;
      fatal_protocol("F2c_call_before_init", f == 0 ? "masa_eval_posterior_mean" : f == 1 ? "masa_display_param" : f == 2 ? "masa_purge_default_param" : f == 3 ? "masa_get_vec" : "masa_eval_central_moment", [&] {
        std::vector<S> v;
        switch (f) {
          case 4: (void)MASA::masa_eval_central_moment<S>(-2); break;              // the check comes before any look at the arguments
          case 5: (void)MASA::masa_eval_central_moment<S>(-2147483647 - 1); break;
          case 0: (void)MASA::masa_eval_posterior_mean<S>(); break;
          case 1: if (C) ::masa_display_param(); else MASA::masa_display_param<S>(); break;
          case 2: if (C) ::masa_purge_default_param(); else MASA::masa_purge_default_param<S>(); break;
          default: MASA::masa_get_vec<S>("vec_data", v); break;
        }
      });
      return;
    }
    case OP_EXIT_HERE: {
      // F6: the process ends here -- static destruction of the registries on this state
      fflush(nullptr);
      step_out += capture_drain();
      pid_t pid = fork();
      if (pid < 0) sim_die("fork failed");
      if (pid == 0) {
        child_prologue(false);
        g_probe_has_cur[0] = reg[0].has_cur;
        g_probe_has_cur[1] = reg[1].has_cur;
        for (int pr = 0; pr < 2; ++pr)
          if (reg[pr].has_cur) g_probe_undocumented[pr] = g_sols[reg[pr].m[reg[pr].cur].sol].name != "cp_normal";
        g_exit_probe = &exit_probe;
        g_expect_exit = (st.u & 1) ? 2 : 1;  // half of the copies use the library once more from their exit hook
        exit(0);
      }
      int status = 0;
      if (waitpid(pid, &status, 0) != pid) sim_die("waitpid failed");
      lseek(g_capfd, 0, SEEK_END);
      step_out += capture_drain();
      fire("F6_process_exit");
      orc_eval("C19");
      if (!(WIFEXITED(status) && WEXITSTATUS(status) == 0)) {
        viol("C19", "C19.teardown.exit", "exit", "a copy of the session that calls exit(0) here does not terminate cleanly (wait status " + std::to_string(status) + ")");
        const bool probed = (st.u & 1) != 0;
        bool undocumented = false;
        for (int pr = 0; pr < 2; ++pr)
          if (reg[pr].has_cur && g_sols[reg[pr].m[reg[pr].cur].sol].name != "cp_normal") undocumented = true;
        if (probed && undocumented) {
          // the copy's end-of-run hook called an evaluator its solution does not provide: it must get -1.33, not a crash
          orc_eval("C15");
          viol("C15", "C15.exit_hook", "posterior_mean", "an evaluator the selected solution does not provide, called from the program's end-of-run hook, does not return -1.33 (wait status " + std::to_string(status) + ")");
        }
      }
      return;
    }
    default: ++skipped; return;
  }
}

void Exec::run() {
  for (size_t i = 0; i < plan.steps.size() && !stop; ++i) {
    stepno = (int)i;
    exec_step(plan.steps[i], 0);
  }
  if (!stop) {
    stepno = (int)plan.steps.size();
    strncpy(g_cur_op, "FINAL_AUDIT", sizeof g_cur_op - 1);
    set_owner("C12");
    step_out.clear();
    audit("C12", "C12.audit.final");
  }
}
#endif
