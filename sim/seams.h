// Seams of the deterministic session simulator (DESIGN.md section 1).
// None of them needs a hook in /repo: they are link-time replacements and a teardown TU.
#ifndef SIM_SEAMS_H
#define SIM_SEAMS_H
#include <cstddef>
#include <cstdint>

namespace simseam {

// ---------------------------------------------------------------- allocator seam (alloc.cpp)
// Allocator modes (fault kinds F1a-d).
enum AllocMode { AM_ZERO = 0,     // every block handed to the library is zero-filled (what fresh processes see)
                 AM_RECYCLE = 1,  // freed library blocks are recycled LIFO per size class, contents kept
                 AM_GARBAGE = 2,  // every block handed to the library is filled with seeded garbage
                 AM_POISON = 3 }; // recycle, and overwrite freed library blocks with a poison pattern

struct AllocStats {
  long long live_blocks;      // blocks allocated inside library calls and not yet freed
  long long live_bytes;
  unsigned long long allocs;  // library-domain allocations since reset_run
  unsigned long long frees;   // frees of library-domain blocks since reset_run
  unsigned long long recycled;   // allocations served from a block that held a library object before (F1b fired)
  unsigned long long garbage_fills; // F1c fired
  unsigned long long poison_fills;  // F1d fired
};

// begin a run: drop all free lists, reset counters, set the mode and the garbage stream
void alloc_begin_run(int mode, uint64_t garbage_seed);
const AllocStats& alloc_stats();
bool alloc_active();            // false under valgrind (it replaces operator new itself)
bool alloc_is_sanitized();      // true in ASan builds: recycling is disabled, fills stay on

// Library domain: only allocations made while depth > 0 are treated as the library's.
extern int g_lib_depth;
struct LibDomain {
  LibDomain() { ++g_lib_depth; }
  ~LibDomain() { --g_lib_depth; }
};

// ---------------------------------------------------------------- registry teardown seam (core_tu.cpp)
// Runs the REAL ~MasterMS on both registries and re-creates them in place.
void reset_registries();
unsigned registry_size_double();
unsigned registry_size_longdouble();

} // namespace simseam
#endif
