// Generator: seed -> plan.  Everything is drawn from ONE PRNG initialised from the run seed; the executor
// draws nothing.  Profiles only change weights (swarm style): every oracle is active in every profile.
#ifndef SIM_GEN_H
#define SIM_GEN_H
#include "sim_plan.h"
#include "sim_model.h"
#include <algorithm>

struct Profile {
  const char* name;
  int w[OP__COUNT];
  int min_steps, max_steps;
  int decorate;       // percent of INITs with a decorated name
  int stratify;       // 1: first client's first handle gets solution (run index mod catalogue size)
  int force_c;        // 1: at least one C client and one C++ double client
  int early_faults;   // percent of runs that begin with misuse on the empty registries
};
// order: INIT SELECT LIST GET_NAME GET_DIM PRINTID SET GET SET_UNKNOWN GET_UNKNOWN INIT_PARAM PURGE SANITY DISPLAY_PARAM
//        DISPLAY_VEC SET_VEC GET_VEC GET_VEC_UNKNOWN SET_VEC_UNKNOWN EVAL EVAL_SUP EVAL_UNSUP PASS_FUNC MIRROR TWIN AUDIT
//        SWEEP SELECT_UNKNOWN INIT_UNKNOWN PREINIT_CALL EXIT_HERE WALK_UNSUP FRESH
static const Profile g_profiles[] = {
    {"GEN", {60, 80, 15, 15, 5, 2, 80, 50, 10, 10, 15, 10, 15, 5, 3, 25, 15, 5, 5, 20, 120, 40, 5, 30, 15, 15, 10, 8, 8, 3, 3, 2, 6}, 20, 110, 40, 0, 0, 15},
    {"C10", {40, 80, 5, 5, 2, 0, 90, 30, 3, 3, 15, 5, 5, 2, 1, 40, 10, 1, 1, 10, 320, 10, 15, 10, 60, 15, 20, 2, 2, 1, 1, 1, 25}, 30, 120, 20, 0, 0, 5},
    {"C11", {30, 50, 5, 5, 2, 0, 160, 100, 40, 40, 50, 40, 60, 15, 10, 70, 50, 20, 20, 10, 80, 10, 3, 20, 30, 20, 5, 3, 3, 1, 1, 1, 30}, 30, 120, 20, 1, 0, 5},
    {"C12", {90, 150, 40, 40, 15, 1, 90, 80, 5, 5, 10, 8, 5, 3, 2, 20, 10, 2, 2, 10, 80, 10, 15, 10, 25, 40, 5, 10, 10, 3, 2, 1, 20}, 20, 120, 30, 0, 0, 10},
    {"C13", {150, 30, 10, 30, 5, 2, 10, 10, 2, 2, 3, 2, 3, 1, 1, 3, 2, 1, 1, 5, 20, 5, 1, 5, 2, 10, 5, 5, 80, 2, 1, 1, 1}, 12, 60, 90, 1, 0, 20},
    {"C14", {120, 30, 5, 20, 20, 8, 10, 10, 2, 2, 10, 2, 10, 5, 3, 3, 2, 1, 1, 10, 60, 10, 1, 5, 5, 5, 60, 2, 5, 1, 1, 3, 3}, 12, 70, 30, 1, 0, 5},
    {"C15", {40, 50, 5, 5, 2, 0, 30, 20, 5, 5, 5, 5, 3, 1, 1, 5, 3, 2, 2, 60, 60, 250, 3, 20, 3, 5, 5, 3, 3, 1, 6, 25, 2}, 20, 100, 20, 1, 0, 5},
    {"C16", {60, 60, 15, 10, 5, 1, 40, 30, 10, 10, 10, 10, 10, 5, 3, 10, 5, 5, 5, 10, 30, 10, 5, 5, 3, 20, 2, 60, 60, 30, 5, 1, 1}, 15, 90, 30, 0, 0, 60},
    {"C17", {40, 60, 10, 20, 10, 0, 50, 40, 5, 5, 15, 10, 20, 5, 5, 30, 25, 10, 5, 20, 80, 30, 3, 300, 5, 10, 10, 5, 5, 2, 1, 3, 3}, 20, 110, 20, 0, 1, 5},
    {"C19", {150, 40, 5, 5, 2, 3, 30, 20, 10, 10, 10, 5, 5, 3, 3, 50, 30, 10, 10, 20, 60, 20, 5, 30, 15, 10, 10, 5, 10, 2, 25, 2, 4}, 15, 100, 40, 1, 0, 10},
};
static const int g_num_profiles = (int)(sizeof(g_profiles) / sizeof(g_profiles[0]));
static const Profile& find_profile(const std::string& n) {
  for (int i = 0; i < g_num_profiles; ++i)
    if (n == g_profiles[i].name) return g_profiles[i];
  return g_profiles[0];
}

static const char* const g_handle_pool[] = {"a",     "b",  "nick", "my handle", "H-1",    "euler_1d", "A",      "",
                                            "  ",    "x#1", "z z",  "heat",      "TWIN",   "h_3",      "-",      "a ",
                                            "Nick",  "B",  "q.q",  "sol-2",     "masa_uninit", "c c c",   "0",      "long_handle_name_that_is_not_short",
                                            "run", "run_fine", "h", "euler",
                                            "a_handle_that_is_seventy_characters_long_0123456789_0123456789_0123456",
                                            "a_handle_of_one_hundred_and_thirty_characters_0123456789_0123456789_0123456789_0123456789_0123456789_0123456789_0123456789_012345678"};
static const int g_num_handles = (int)(sizeof(g_handle_pool) / sizeof(g_handle_pool[0]));
static const double g_wild[] = {0.0, -0.0, 4.9406564584124654e-324, 2.2250738585072014e-308, 1e300, -1e300, -12345.67, -20.0,
                                -1.33, 1.0, -1.0, 12345.67, 3.14, 1e-10, 7.0, 0.5,
                                // close to the uninitialised marker but not the marker (relative distance >= 1e-6): initialised values
                                -12345.6, -12346.0, -12345.68234567, -12345.669, -12345.0};
static const int g_num_wild = (int)(sizeof(g_wild) / sizeof(g_wild[0]));

static std::string decorate(Rng& r, const std::string& name, bool change_case, bool separators) {
  std::string o;
  bool longrun = separators && r.uni(40) == 0;  // one run longer than any fixed-size buffer
  auto run = [&] {
    int n = r.range(1, 3);
    if (longrun) {
      n = r.range(4096, 6000);
      longrun = false;
    }
    for (int i = 0; i < n; ++i) o.push_back(r.bern(0.5) ? '-' : ' ');
  };
  if (separators && r.bern(0.35)) run();  // leading
  for (size_t i = 0; i < name.size(); ++i) {
    char c = name[i];
    if (change_case && r.bern(0.4)) c = (char)toupper((unsigned char)c);
    o.push_back(c);
    if (separators && i + 1 < name.size() && r.bern(0.2)) run();
  }
  if (separators && r.bern(0.35)) run();  // trailing
  return o;
}
static std::string near_miss(Rng& r, const std::string& name, const std::vector<Client>& clients) {
  std::string o = name;
  switch (r.uni(19)) {
    case 0: o.erase(std::remove(o.begin(), o.end(), '_'), o.end()); break;
    case 1: std::replace(o.begin(), o.end(), '_', '-'); break;
    case 2: o += "x"; break;
    case 3: o = "_" + o; break;
    case 4: if (!o.empty()) o.erase(o.size() - 1); break;
    case 5: o.insert((size_t)r.uni((int)o.size() + 1), 1, r.bern(0.5) ? '.' : '\t'); break;
    case 6: o = ""; break;
    case 7: o = "masa"; break;
    case 8: o.insert((size_t)r.uni((int)o.size() + 1), 1, '_'); break;
    case 9: if (!clients.empty() && !clients[0].handles.empty()) o = clients[0].handles[0]; else o = "handle"; break;
    case 10: o = o + o; break;
    case 15: {  // two adjacent bytes changed so that the usual multiplicative string hashes (h*33+c, h*31+c) keep their value
      if (o.size() >= 2) {
        size_t i = (size_t)r.uni((int)o.size() - 1);
        int m = r.bern(0.5) ? 33 : 31;
        int sgn = r.bern(0.5) ? 1 : -1;
        int c1 = (unsigned char)o[i] + sgn, c2 = (unsigned char)o[i + 1] - sgn * m;
        if (c1 > 0 && c1 < 256 && c2 > 0 && c2 < 256) {
          o[i] = (char)c1;
          o[i + 1] = (char)c2;
        } else
          o += "q";
      }
      return o;
    }
    case 16: {  // one non-letter with bit 0x20 flipped ('_' <-> DEL, digits <-> control characters): a sloppy case fold accepts it
      std::vector<size_t> idx;
      for (size_t i = 0; i < o.size(); ++i)
        if (!isalpha((unsigned char)o[i])) idx.push_back(i);
      if (idx.empty()) o += "_";
      else {
        size_t i = idx[(size_t)r.uni((int)idx.size())];
        o[i] = (char)((unsigned char)o[i] ^ 0x20);
      }
      return o;
    }
    case 17: {  // a solution that exists in other configurations of the library but is compiled out of this one
      static const char* const off[] = {"ad_cns_2d_crossterms", "ad_cns_3d_crossterms", "ad_cns_3d_les", "ad_cns_3d_les_sph", "convdiff_steady_nosource_1d",
                                        "navierstokes_3d_incompressible", "navierstokes_3d_incompressible_homogeneous", "navierstokes_3d_incompbouss_homogeneous",
                                        "navierstokes_3d_transient_sutherland"};
      o = off[r.uni(9)];
      break;
    }
    case 13: {  // a complete catalogue name, a NUL byte, then more characters (only a C++ caller can say this)
      o.push_back('\0');
      o += r.bern(0.5) ? "xyz" : "_2d";
      return o;
    }
    case 14: {  // longer than any fixed buffer: name + 4096..6000 separators + junk, or junk in front
      size_t want = (size_t)r.range(4096, 6000);
      while (o.size() < want) o.push_back(r.bern(0.5) ? ' ' : '-');
      o += "_but_not_really";
      return o;
    }
    case 12: {  // bytes >= 0x80: a high-bit twin of a letter, a Latin-1 no-break space, a soft hyphen
      switch (r.uni(3)) {
        case 0: if (!o.empty()) { size_t i = (size_t)r.uni((int)o.size()); o[i] = (char)((unsigned char)o[i] | 0x80); } break;
        case 1: o.insert((size_t)r.uni((int)o.size() + 1), 1, (char)0xA0); break;
        default: o.insert((size_t)r.uni((int)o.size() + 1), 1, (char)0xAD); break;
      }
      break;
    }
    case 11: {  // a catalogue name, a long run of separators, then junk: a fixed-size copy would cut the junk off
      static const int total[] = {40, 64, 65, 128, 129, 256, 300};
      size_t want = (size_t)total[r.uni(7)];
      while (o.size() < want) o.push_back(r.bern(0.5) ? ' ' : '-');
      o += "junk";
      break;
    }
    default: if (o.size() > 2) o.erase((size_t)r.uni((int)o.size()), 1); break;
  }
  if (r.bern(0.3)) o = decorate(r, o, true, true);
  return o;
}

static int pick_solution(Rng& r, const std::string& profile) {
  int n = (int)g_sols.size();
  std::vector<int> w((size_t)n, 10);
  for (int i = 0; i < n; ++i) {
    const std::string& nm = g_sols[(size_t)i].name;
    if (g_sols[(size_t)i].fixture) w[(size_t)i] = (profile == "C11" || profile == "C10") ? 0 : 3;
    bool cached = nm == "fans_sa_steady_wall_bounded" || nm == "sod_1d" || nm == "cp_normal" || nm == "rans_sa";
    bool vec = nm == "cp_normal" || nm == "radiation_integrated_intensity";
    bool cb = nm == "euler_chem_1d" || nm == "navierstokes_ablation_1d_steady";
    if (profile == "C10" && cached) w[(size_t)i] = 30;
    if (profile == "C10" && cb) w[(size_t)i] = 20;
    if ((profile == "C11" || profile == "C19" || profile == "C17") && vec) w[(size_t)i] = 40;
    if (profile == "C19" && cached) w[(size_t)i] = 25;  // members that a constructor may leave uninitialised
    if (profile == "C12" && cb) w[(size_t)i] = 20;
    if (profile == "C12" && cached) w[(size_t)i] = 20;  // twins of solutions with cached members: shared state shows
    if (nm == "navierstokes_4d_compressible_powerlaw" && profile != "C11" && profile != "C14") w[(size_t)i] = 4;  // 205 parameters: slow
  }
  return r.pickw(w);
}

static const std::vector<std::vector<int>>* g_hint_sols = nullptr;  // generator-side: solution per (client, handle)
static Step gen_op(Rng& r, const Profile& P, int client, int nh, const Plan& plan, bool allow_nested) {
  Step s;
  std::vector<int> w(P.w, P.w + OP__COUNT);
  s.op = r.pickw(w);
  s.client = client;
  s.h = r.uni(nh);
  s.a = r.uni(1000);
  s.b = r.uni(40);
  s.c = r.uni(6);
  static const int kk[] = {1, 1, 1, 1, 2, 2, 2, 3, 3, 0, 4, 5, 2, 6};
  s.k = kk[r.uni(14)];
  s.u = r.next();
  s.len = r.bern(0.15) ? 0 : r.range(1, 40);
  if (s.op == OP_SET_VEC || s.op == OP_MIRROR) {
    double u = r.u01();
    if (u < 0.25) s.len = -1;       // same length as the vector has now, other values
    else if (u < 0.40) s.len = -2;  // the length of the neighbouring vector parameter
    else if (u < 0.48) s.len = -3;  // what is stored now with the sign of every zero flipped
    else if (u < 0.60 && s.op == OP_SET_VEC) s.len = -4;  // every vector parameter of the solution to one common new length
  }
  s.val = g_wild[r.uni(g_num_wild)];
  if (s.op == OP_SET) {
    s.b = r.bern(0.75) ? 0 : 1;  // admissible / wild
    if (r.bern(0.2)) s.val = (r.u01() - 0.5) * 200.0;
    if (r.uni(20) == 0) s.b = 3;  // a signed zero (flipped if one is stored already)
    else if (r.uni(25) == 0) {  // a degenerate state: every scalar parameter gets the same value (often zero)
      s.b = 2;
      if (r.bern(0.6)) s.val = r.bern(0.5) ? 0.0 : -0.0;
    }
  }
  if (s.op == OP_EVAL || s.op == OP_EVAL_SUP || s.op == OP_EVAL_UNSUP) {
    int u = r.uni(20);  // mostly interior points; sometimes far outside the unit box, or a negative abscissa
    if (u <= 1) s.x[0] = 2000.0;
    if (u == 2) s.x[0] = -3.0;
  }
  if (s.op == OP_MIRROR) s.b = r.uni(10) + 10 * r.uni(4);
  if (s.op == OP_SELECT_UNKNOWN) {
    const Client& cl = plan.clients[(size_t)client];
    std::string base = cl.handles.empty() ? std::string("h") : cl.handles[(size_t)s.h % cl.handles.size()];
    switch (r.uni(7)) {
      case 0: s.s = base + " "; break;
      case 1: { s.s = base; for (char& c : s.s) c = (char)(isupper((unsigned char)c) ? tolower((unsigned char)c) : toupper((unsigned char)c)); if (s.s == base) s.s += "_"; break; }
      case 2: { const Client& o = plan.clients[(size_t)r.uni((int)plan.clients.size())]; s.s = o.handles.empty() ? "nohandle" : o.handles[0]; break; }
      case 3: s.s = "nohandle"; break;
      case 4: s.s = g_sols[(size_t)r.uni((int)g_sols.size())].name; break;
      case 5: s.s = base.empty() ? "x" : base.substr(0, base.size() - 1); break;
      default: s.s = " " + base; break;
    }
  }
  if (s.op == OP_INIT_UNKNOWN) {
    int base = r.uni((int)g_sols.size());
    if (g_hint_sols && (size_t)client < g_hint_sols->size() && !(*g_hint_sols)[(size_t)client].empty() && r.bern(0.5))
      base = (*g_hint_sols)[(size_t)client][(size_t)s.h % (*g_hint_sols)[(size_t)client].size()];  // a near miss of what this handle holds
    s.s = near_miss(r, g_sols[(size_t)base].name, plan.clients);
  }
  if (allow_nested && (s.op == OP_EVAL_SUP || s.op == OP_EVAL || s.op == OP_PASS_FUNC) && plan.clients.size() > 1 && r.bern(s.op == OP_PASS_FUNC ? 0.9 : 0.4)) {
    int nn = r.range(1, 2);
    bool pair = r.bern(0.35);  // "the callback looks something up on another handle": select it, evaluate there
    if (pair) nn = 2;
    for (int i = 0; i < nn; ++i) {
      int oc = r.uni((int)plan.clients.size() - 1);
      if (oc >= client) ++oc;
      static const int nops[] = {OP_SELECT, OP_SELECT, OP_SET, OP_SET, OP_GET, OP_INIT, OP_LIST, OP_SET_VEC, OP_PURGE, OP_INIT_PARAM, OP_GET_NAME, OP_SELECT_UNKNOWN,
                                 OP_EVAL_SUP, OP_EVAL_SUP, OP_EVAL_SUP, OP_EVAL_UNSUP};
      Step n = gen_op(r, P, oc, (int)plan.clients[(size_t)oc].handles.size(), plan, false);
      n.op = nops[r.uni(16)];
      if (pair) {
        n.op = i == 0 ? OP_SELECT : OP_EVAL_SUP;
        if (i == 1) oc = s.nested[0].client, n.h = s.nested[0].h;
      }
      n.client = oc;
      n.nested.clear();
      if (n.op == OP_SET) n.b = r.bern(0.75) ? 0 : 1;
      if (n.op == OP_SELECT_UNKNOWN) n.s = "nohandle";
      if (n.op == OP_INIT) n.s = g_sols[(size_t)pick_solution(r, P.name)].name;
      s.nested.push_back(n);
    }
  }
  return s;
}

// Stratified sweep for C12 (enumeration, stated as such in the evidence): every sequence of length <= 4 over the
// alphabet {INIT a, INIT b, SELECT a, SELECT b, SET, GET, re-INIT a with another solution}, in both precisions.
static const uint64_t kC12EnumCount = 2 * (7 + 49 + 343 + 2401);
// the thorough tier walks on through lengths 5 and 6 (blocks are ordered by length, so the first kC12EnumCount indices are the same)
static const uint64_t kC12EnumMax = 2 * (7 + 49 + 343 + 2401 + 16807 + 117649);
static Plan gen_plan_c12enum(uint64_t seed, uint64_t run_index) {
  Rng r(seed);
  Plan p;
  p.seed = seed;
  p.profile = "C12E";
  static const int amw[] = {2, 4, 4, 3};
  p.alloc_mode = r.pickw(std::vector<int>(amw, amw + 4));
  p.alloc_seed = r.next() | 1;
  uint64_t idx = run_index % kC12EnumMax;
  Client cl;
  cl.prec = (int)(idx & 1);
  idx >>= 1;
  cl.lang = 0;
  cl.handles.push_back("a");
  cl.handles.push_back("b");
  p.clients.push_back(cl);
  int len = 1;
  uint64_t block = 7;
  while (idx >= block) {
    idx -= block;
    block *= 7;
    ++len;
  }
  int s1 = resolve_solution("euler_1d"), s2 = resolve_solution("heateq_2d_steady_const");
  for (int i = 0; i < len; ++i) {
    int d = (int)(idx % 7);
    idx /= 7;
    Step st;
    st.client = 0;
    switch (d) {
      case 0: st.op = OP_INIT; st.h = 0; st.a = s1; st.s = g_sols[(size_t)s1].name; break;
      case 1: st.op = OP_INIT; st.h = 1; st.a = s1; st.s = g_sols[(size_t)s1].name; break;
      case 2: st.op = OP_SELECT; st.h = 0; break;
      case 3: st.op = OP_SELECT; st.h = 1; break;
      case 4: st.op = OP_SET; st.a = 0; st.b = 0; st.c = 1 + i; break;
      case 5: st.op = OP_GET; st.a = 0; break;
      default: st.op = OP_INIT; st.h = 0; st.a = s2; st.s = g_sols[(size_t)s2].name; break;
    }
    p.steps.push_back(st);
  }
  return p;
}

static Plan gen_plan(uint64_t seed, const std::string& profile_name, uint64_t run_index) {
  if (profile_name == "C12E") return gen_plan_c12enum(seed, run_index);
  const Profile& P = find_profile(profile_name);
  Rng r(seed);
  Plan p;
  p.seed = seed;
  p.profile = P.name;
  static const int amw[] = {2, 4, 4, 3};
  p.alloc_mode = r.pickw(std::vector<int>(amw, amw + 4));
  p.alloc_seed = r.next() | 1;
  p.racy = r.bern(0.3) ? 1 : 0;
  static const int ncw[] = {2, 4, 3, 1};
  int nclients = 1 + r.pickw(std::vector<int>(ncw, ncw + 4));
  if (P.force_c && nclients < 2) nclients = 2;
  std::vector<std::vector<int>> sols;  // solution per (client, handle)
  for (int c = 0; c < nclients; ++c) {
    Client cl;
    cl.prec = r.bern(0.4) ? 1 : 0;
    cl.lang = (cl.prec == 0 && r.bern(0.4)) ? 1 : 0;
    if (P.force_c && c == 0) { cl.prec = 0; cl.lang = 1; }
    if (P.force_c && c == 1) { cl.prec = 0; cl.lang = 0; }
    int nh = r.range(1, 2);
    std::vector<int> ss;
    for (int h = 0; h < nh; ++h) {
      std::string hs = g_handle_pool[r.uni(g_num_handles)];
      if (c > 0 && r.bern(P.force_c ? 0.5 : 0.12)) {  // share a handle string with another client (same or other registry)
        const Client& o = p.clients[(size_t)r.uni(c)];
        hs = o.handles[(size_t)r.uni((int)o.handles.size())];
      }
      int sol_h = pick_solution(r, P.name);
      if (r.uni(20) == 0) hs = g_sols[(size_t)sol_h].name;  // a handle named exactly like the solution it holds
      cl.handles.push_back(hs);
      ss.push_back(sol_h);
    }
    p.clients.push_back(cl);
    sols.push_back(ss);
  }
  if (P.stratify) sols[0][0] = (int)(run_index % g_sols.size());
  if (nclients > 1 && r.bern(0.45)) {  // twins: two handles of the same solution
    sols[1][0] = sols[0][0];
    if (r.bern(0.5)) p.clients[1].prec = p.clients[0].prec, p.clients[1].lang = p.clients[1].prec ? 0 : p.clients[1].lang;
  }
  g_hint_sols = &sols;
  std::vector<std::vector<char>> inited;
  for (int c = 0; c < nclients; ++c) inited.push_back(std::vector<char>(p.clients[(size_t)c].handles.size(), 0));
  int nsteps = r.range(P.min_steps, P.max_steps);
  int ninits = 0;
  auto emit_init = [&](int c, int h, int sol) {
    Step s;
    s.op = OP_INIT;
    s.client = c;
    s.h = h;
    s.a = sol;
    const std::string& nm = g_sols[(size_t)sol].name;
    if (r.uni(100) < P.decorate) {
      int kind = r.uni(3);
      s.s = decorate(r, nm, kind != 1, kind != 0);
    } else
      s.s = nm;
    p.steps.push_back(s);
    inited[(size_t)c][(size_t)h] = 1;
    ++ninits;
  };
  if (r.uni(100) < P.early_faults) {  // misuse on the empty registries (F2a, F2c)
    int n = r.range(1, 3);
    for (int i = 0; i < n; ++i) {
      int c = r.uni(nclients);
      Step s = gen_op(r, P, c, (int)p.clients[(size_t)c].handles.size(), p, false);
      static const int eops[] = {OP_PREINIT_CALL, OP_SELECT, OP_EVAL, OP_GET, OP_SET, OP_SANITY, OP_INIT_PARAM, OP_GET_NAME, OP_GET_DIM, OP_SELECT_UNKNOWN, OP_PURGE, OP_GET_VEC, OP_DISPLAY_PARAM, OP_SET_VEC, OP_INIT_UNKNOWN};
      s.op = eops[r.uni(15)];
      if (s.op == OP_SELECT_UNKNOWN) s.s = "nohandle";
      if (s.op == OP_INIT_UNKNOWN) s.s = near_miss(r, g_sols[(size_t)r.uni((int)g_sols.size())].name, p.clients);
      p.steps.push_back(s);
    }
  }
  int guard = 0;
  while ((int)p.steps.size() < nsteps && ++guard < 5000) {
    int c = r.uni(nclients);
    const Client& cl = p.clients[(size_t)c];
    int nh = (int)cl.handles.size();
    int pending = -1, ready = -1;
    for (int h = 0; h < nh; ++h) {
      if (!inited[(size_t)c][(size_t)h] && pending < 0) pending = h;
      if (inited[(size_t)c][(size_t)h]) ready = h;
    }
    if (pending >= 0 && (ready < 0 || r.bern(0.6)) && ninits < 8) {
      emit_init(c, pending, sols[(size_t)c][(size_t)pending]);
      if (P.stratify && c == 0 && pending == 0 && (p.profile == "C15" || p.profile == "C14")) {
        Step w;
        w.client = c;
        w.u = r.next();
        w.op = p.profile == "C15" ? OP_WALK_UNSUP : OP_SWEEP;
        p.steps.push_back(w);
      }
      if (!p.racy) {
        int L = r.range(0, 4);
        for (int i = 0; i < L; ++i) p.steps.push_back(gen_op(r, P, c, nh, p, true));
      }
      continue;
    }
    if (ready < 0 && !p.racy) {
      // a component that has not initialised anything yet calls in anyway (F2c in the middle of a session, typically
      // while the OTHER precision's registry is populated)
      if (r.bern(p.profile == "C16" ? 0.5 : 0.15)) {
        int L0 = r.range(1, 2);
        for (int i = 0; i < L0; ++i) {
          Step s = gen_op(r, P, c, nh, p, false);
          static const int mops[] = {OP_GET_DIM, OP_GET_NAME, OP_GET, OP_SET, OP_EVAL, OP_SANITY, OP_INIT_PARAM, OP_PURGE, OP_GET_VEC, OP_SET_VEC, OP_DISPLAY_PARAM, OP_DISPLAY_VEC, OP_PREINIT_CALL, OP_SELECT};
          s.op = mops[r.uni(14)];
          p.steps.push_back(s);
        }
      }
      continue;
    }
    int L = r.range(1, 6);
    int h = r.uni(nh);
    if (!inited[(size_t)c][(size_t)h]) h = ready >= 0 ? ready : h;
    if (!p.racy) {  // disciplined: a burst starts by selecting the client's own handle and is atomic
      Step s;
      s.op = OP_SELECT;
      s.client = c;
      s.h = h;
      p.steps.push_back(s);
    }
    for (int i = 0; i < L; ++i) {
      Step s = gen_op(r, P, c, nh, p, true);
      if (s.op == OP_SET || s.op == OP_SET_VEC || s.op == OP_INIT_PARAM) {
        // a store is often followed by a comparison with an instance that only ever saw the new values
        double pf = p.profile == "C10" ? 0.35 : p.profile == "C11" ? 0.3 : p.profile == "C19" ? 0.25 : p.profile == "GEN" ? 0.15 : 0.05;
        if (r.bern(pf)) {
          p.steps.push_back(s);
          Step f;
          f.client = c;
          f.u = r.next();
          f.op = r.bern(0.6) ? OP_FRESH : OP_TWIN;
          p.steps.push_back(f);
          continue;
        }
      }
      if (s.op == OP_INIT) {
        if (ninits >= 8) continue;
        int hh = p.racy ? s.h : h;
        int sol = r.bern(0.6) ? sols[(size_t)c][(size_t)hh] : pick_solution(r, P.name);
        sols[(size_t)c][(size_t)hh] = sol;
        emit_init(c, hh, sol);
        continue;
      }
      if (!p.racy && s.op == OP_SELECT) s.h = h;
      p.steps.push_back(s);
      if (s.op == OP_EVAL_SUP && !p.racy && r.bern(p.profile == "C12" || p.profile == "C10" ? 0.3 : 0.12)) {
        // "ask the twin the same question right away": another handle of the same solution in the same registry gets
        // the very same call next (two instances, same point, possibly the same values, one right after the other)
        for (int c2 = 0; c2 < nclients; ++c2) {
          if (c2 == c || p.clients[(size_t)c2].prec != cl.prec) continue;
          int h2 = -1;
          for (size_t j = 0; j < sols[(size_t)c2].size(); ++j)
            if (inited[(size_t)c2][j] && sols[(size_t)c2][j] == sols[(size_t)c][(size_t)h]) h2 = (int)j;
          if (h2 < 0) continue;
          Step sel;
          sel.op = OP_SELECT;
          sel.client = c2;
          sel.h = h2;
          p.steps.push_back(sel);
          Step e2 = s;
          e2.client = c2;
          e2.h = h2;
          e2.nested.clear();
          p.steps.push_back(e2);
          Step back;  // the burst of client c goes on with its own handle
          back.op = OP_SELECT;
          back.client = c;
          back.h = h;
          p.steps.push_back(back);
          break;
        }
      }
    }
  }
  g_hint_sols = nullptr;
  return p;
}
#endif
