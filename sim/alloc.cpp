// Simulated allocator: replacement of the global operator new/delete (standard C++ replacement;
// MASA is linked statically into the simulator).  See seams.h and DESIGN.md section 1 / 3 (F1a-d).
//
// Only blocks requested while a library call is executing (g_lib_depth > 0) are "library blocks":
// they are accounted, filled according to the mode of the run and, in plain builds, recycled through
// per-size-class LIFO free lists so that a constructor lands in memory that held another object
// before.  The harness' own allocations go straight to malloc, so the library's heap image depends
// only on the library's own allocation sequence (DESIGN.md 4.2).
#include "seams.h"
#include <cstdlib>
#include <cstring>
#include <cstdio>
#include <new>
#include <unistd.h>

#if defined(__has_feature)
#if __has_feature(address_sanitizer)
#define SIM_ASAN 1
#endif
#endif
#if defined(__SANITIZE_ADDRESS__)
#define SIM_ASAN 1
#endif
#ifdef SIM_ASAN
#include <sanitizer/asan_interface.h>
#define HDR_POISON(p) ASAN_POISON_MEMORY_REGION((p), 16)
#define HDR_UNPOISON(p) ASAN_UNPOISON_MEMORY_REGION((p), 16)
#else
#define HDR_POISON(p) ((void)0)
#define HDR_UNPOISON(p) ((void)0)
#endif

namespace simseam {
int g_lib_depth = 0;
}

namespace {
using namespace simseam;

struct Hdr {
  uint64_t size;   // requested size
  uint32_t magic;
  uint32_t flags;  // bit0: library block; bits 8..: size class (0 = none)
};
static_assert(sizeof(Hdr) == 16, "header must keep 16-byte alignment");
const uint32_t MAGIC_LIVE = 0x51A110C8u;
const uint32_t MAGIC_DEAD = 0xDEADB10Cu;

const int NCLS = 1024;  // classes of 16 bytes: recycle blocks up to 16 KiB
struct FreeList {
  void** v;
  int n, cap;
};
FreeList g_free[NCLS];
AllocStats g_stats;
int g_mode = AM_ZERO;
uint64_t g_gs = 0x9E3779B97F4A7C15ull;  // garbage stream state

inline uint64_t gnext() {
  g_gs ^= g_gs >> 12;
  g_gs ^= g_gs << 25;
  g_gs ^= g_gs >> 27;
  return g_gs * 0x2545F4914F6CDD1Dull;
}

void garbage_fill(void* p, size_t n) {
  uint64_t k = gnext();
  unsigned char* b = static_cast<unsigned char*>(p);
  switch (k & 7) {
    case 0: memset(b, 0xA5, n); break;
    case 1: memset(b, 0xFF, n); break;
    case 2: memset(b, 0x01, n); break;
    default: {
      size_t i = 0;
      for (; i + 8 <= n; i += 8) {
        uint64_t r = gnext();
        memcpy(b + i, &r, 8);
      }
      uint64_t r = gnext();
      for (; i < n; ++i) {
        b[i] = (unsigned char)r;
        r >>= 8;
      }
    }
  }
  ++g_stats.garbage_fills;
}

[[noreturn]] void heap_fatal(const char* what) {
  // async-signal-safe enough: the crash handler of the simulator attributes the abort to the running step
  const char* pre = "SIM-ALLOC: ";
  ssize_t r = write(2, pre, strlen(pre));
  r = write(2, what, strlen(what));
  r = write(2, "\n", 1);
  (void)r;
  abort();
}

inline bool recycling() {
#ifdef SIM_ASAN
  return false;
#else
  return g_mode == AM_RECYCLE || g_mode == AM_POISON || g_mode == AM_GARBAGE;
#endif
}

void* sim_new(size_t n, bool nothrow) {
  bool lib = g_lib_depth > 0;
  size_t cls = (n + 15) / 16;
  if (cls == 0) cls = 1;
  void* raw = nullptr;
  bool recycled = false;
  bool classed = lib && cls < (size_t)NCLS;
#ifdef SIM_ASAN
  classed = false;
#endif
  if (classed && recycling()) {
    FreeList& f = g_free[cls];
    if (f.n > 0) {
      raw = f.v[--f.n];
      recycled = true;
    }
  }
  if (!raw) {
    size_t cap = classed ? cls * 16 : n;
    raw = malloc(cap + sizeof(Hdr));
    if (!raw) {
      if (nothrow) return nullptr;
      throw std::bad_alloc();
    }
  }
  Hdr* h = static_cast<Hdr*>(raw);
  HDR_UNPOISON(h);
  h->size = n;
  h->magic = MAGIC_LIVE;
  h->flags = (lib ? 1u : 0u) | (classed ? (uint32_t)(cls << 8) : 0u);
  void* user = static_cast<char*>(raw) + sizeof(Hdr);
  if (lib) {
    ++g_stats.live_blocks;
    g_stats.live_bytes += (long long)n;
    ++g_stats.allocs;
    size_t fill = classed ? cls * 16 : n;
    if (recycled) {
      ++g_stats.recycled;
      if (g_mode == AM_GARBAGE) garbage_fill(user, fill);
      // AM_RECYCLE / AM_POISON: contents stay as the previous owner (or the poison) left them
    } else {
      if (g_mode == AM_GARBAGE)
        garbage_fill(user, fill);
      else
        memset(user, 0, fill);
    }
  }
  HDR_POISON(h);
  return user;
}

void sim_delete(void* p) {
  if (!p) return;
  Hdr* h = reinterpret_cast<Hdr*>(static_cast<char*>(p) - sizeof(Hdr));
  HDR_UNPOISON(h);
  if (h->magic != MAGIC_LIVE) {
    if (h->magic == MAGIC_DEAD) heap_fatal("double free of a block (operator delete called twice)");
    heap_fatal("operator delete of a block with a corrupted header");
  }
  bool lib = (h->flags & 1u) != 0;
  size_t cls = h->flags >> 8;
  size_t n = (size_t)h->size;
  if (lib) {
    --g_stats.live_blocks;
    g_stats.live_bytes -= (long long)n;
    ++g_stats.frees;
    if (g_mode == AM_POISON) {
      memset(p, 0xDB, cls ? cls * 16 : n);
      ++g_stats.poison_fills;
    }
    if (cls && recycling()) {
      FreeList& f = g_free[cls];
      if (f.n == f.cap) {
        int nc = f.cap ? f.cap * 2 : 64;
        void** nv = static_cast<void**>(realloc(f.v, sizeof(void*) * (size_t)nc));
        if (!nv) heap_fatal("out of memory in free list");
        f.v = nv;
        f.cap = nc;
      }
      h->magic = MAGIC_DEAD;
      f.v[f.n++] = h;
      return;
    }
  }
  h->magic = MAGIC_DEAD;
  free(h);
}
}  // namespace

namespace simseam {

void alloc_begin_run(int mode, uint64_t garbage_seed) {
  for (int c = 0; c < NCLS; ++c) {
    FreeList& f = g_free[c];
    for (int i = 0; i < f.n; ++i) free(f.v[i]);
    f.n = 0;
  }
  g_mode = mode;
  g_gs = garbage_seed ? garbage_seed : 0x9E3779B97F4A7C15ull;
  g_stats.allocs = g_stats.frees = g_stats.recycled = 0;
  g_stats.garbage_fills = g_stats.poison_fills = 0;
}

const AllocStats& alloc_stats() { return g_stats; }

bool alloc_active() {
  // Under valgrind the tool replaces operator new/delete itself (by address), so this allocator never sees the
  // library's requests.  Detect that through function pointers to the real entry points: a new/delete expression
  // in this translation unit could be inlined and bypass the redirection.
  static int active = -1;
  if (active < 0) {
    void* (*volatile pnew)(size_t) = static_cast<void* (*)(size_t)>(&::operator new);
    void (*volatile pdel)(void*) = static_cast<void (*)(void*)>(&::operator delete);
    unsigned long long before = g_stats.allocs;
    {
      LibDomain d;
      void* p = pnew(24);
      pdel(p);
    }
    active = g_stats.allocs != before ? 1 : 0;
  }
  return active == 1;
}

bool alloc_is_sanitized() {
#ifdef SIM_ASAN
  return true;
#else
  return false;
#endif
}

}  // namespace simseam

void* operator new(size_t n) { return sim_new(n, false); }
void* operator new[](size_t n) { return sim_new(n, false); }
void* operator new(size_t n, const std::nothrow_t&) noexcept { return sim_new(n, true); }
void* operator new[](size_t n, const std::nothrow_t&) noexcept { return sim_new(n, true); }
void operator delete(void* p) noexcept { sim_delete(p); }
void operator delete[](void* p) noexcept { sim_delete(p); }
void operator delete(void* p, size_t) noexcept { sim_delete(p); }
void operator delete[](void* p, size_t) noexcept { sim_delete(p); }
void operator delete(void* p, const std::nothrow_t&) noexcept { sim_delete(p); }
void operator delete[](void* p, const std::nothrow_t&) noexcept { sim_delete(p); }
