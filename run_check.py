#!/usr/bin/env python3
"""Orchestrator of the deterministic session simulator (DESIGN.md section 2, 4).

usage: run_check.py <PROPERTY> [--tier quick|thorough] [--runs-scale F]
env:   VERIF_SEED (int, default 20261002), VERIF_TIER (quick|thorough)

Builds the simulator variants from /repo's current tree (cached by content hash), runs seeded batches on 16
workers, minimises and replay-gates every violation of <PROPERTY>, writes evidence/<PROPERTY>.json.
Exit 0: the property held on everything explored (KNOWN-FINDING lines do not count);
exit 1: "VIOLATION property=<id> replay=<path>" printed for each distinct violation;
exit 2: harness fault (build failure, non-reproducible violation) -- never a verdict.
"""
import json, os, re, subprocess, sys, time, urllib.parse, collections, hashlib
from concurrent.futures import ThreadPoolExecutor

VERIF = os.path.dirname(os.path.abspath(__file__))
sys.path.insert(0, VERIF)
import build as simbuild

DATA = os.path.join(VERIF, "data")
OUT = os.environ.get("VERIF_OUT", VERIF)  # evidence/ and replays/ go here (overridden only by the self-test)
CLAIMED = ["C10", "C11", "C12", "C13", "C14", "C15", "C16", "C17", "C19"]
WORKERS = int(os.environ.get("VERIF_JOBS", "16"))

# (variant, profile, runs) per tier; "P" stands for the property's own profile
SCHEDULE = {
    "quick": [("exc.plain", "P", 6000), ("exc.plain", "GEN", 1500), ("exit.plain", "P", 3000), ("exc.asan", "P", 600), ("exit.asan", "P", 300)],
    "thorough": [("exc.plain", "P", 400000), ("exc.plain", "GEN", 100000), ("exit.plain", "P", 200000), ("exit.plain", "GEN", 50000),
                 ("exc.asan", "P", 30000), ("exit.asan", "P", 15000), ("exc.asan", "GEN", 10000)],
}
# C19 is about memory errors: weight the sanitizer builds more
SCHEDULE_C19 = {
    "quick": [("exc.plain", "P", 4000), ("exit.plain", "P", 2000), ("exc.asan", "P", 1400), ("exit.asan", "P", 700), ("exc.asan", "GEN", 300), ("exc.asan", "C10", 400), ("exc.valgrind", "P", 48)],
    "thorough": [("exc.plain", "P", 250000), ("exit.plain", "P", 120000), ("exc.plain", "GEN", 60000), ("exc.asan", "P", 60000), ("exit.asan", "P", 30000),
                 ("exc.asan", "GEN", 20000), ("exc.asan", "C10", 20000), ("exc.asan", "C11", 10000), ("exc.asan", "C17", 10000), ("exc.valgrind", "P", 1200), ("exc.valgrind", "GEN", 400)],
}
CHUNK = {"plain": 100, "asan": 20, "valgrind": 1}
VALGRIND = ["valgrind", "-q", "--error-exitcode=78", "--exit-on-first-error=yes", "--leak-check=full", "--errors-for-leak-kinds=definite", "--num-callers=12"]
C12_ENUM = 2 * (7 + 49 + 343 + 2401)  # must equal kC12EnumCount in sim/sim_gen.h
C12_ENUM_THOROUGH = 2 * (7 + 49 + 343 + 2401 + 16807 + 117649)  # kC12EnumMax: lengths <= 6

REAL_VS_STUB = {
    "real": ["every src/*.cpp of the default configuration compiled from /repo's working tree (C++ templates for double and long double, extern \"C\" layer)",
             "the real registry destructor ~MasterMS (core_tu.cpp includes masa_core.cpp verbatim)", "real exit()/throw abort path (fork / catch)", "real static destruction in forked copies"],
    "stub": ["global operator new/delete (simulated allocator: zero / recycle / garbage / poison)", "fd 1 (memfd capture)", "user callbacks (yield to the scheduler)",
             "process boundary for expected aborts in the exit() build (fork)"],
    "not_exercised": ["Fortran module", "SWIG module", "MetaPhysicL solutions", "masa_test_default (unconditionally exits)", "masa_version_stdout"],
}


def log(msg):
    sys.stdout.write(msg + "\n")
    sys.stdout.flush()


def parse_kv(line):
    d = {}
    for tok in line.split()[1:]:
        if "=" in tok:
            k, v = tok.split("=", 1)
            d[k] = v
    return d


def parse_map(s):
    m = {}
    if s and s != "-":
        for part in s.split(","):
            k, v = part.rsplit(":", 1)
            m[k] = int(v)
    return m


class Agg:
    def __init__(self):
        self.runs = 0
        self.steps = 0
        self.viols = []       # dicts
        self.crashes = []     # dicts
        self.timeouts = 0
        self.fired = collections.Counter()
        self.ops = collections.Counter()
        self.orc = collections.Counter()
        self.states = set()
        self.trans = set()
        self.cells = set()
        self.ileaves = set()
        self.planhashes_nontrivial = set()
        self.planhashes = set()
        self.by_variant = collections.Counter()
        self.loghashes = {}   # (variant, profile, idx) -> loghash  (determinism bookkeeping)
        self.alloc_modes = collections.Counter()
        self.sup = 0
        self.unsup = 0
        self.harness_faults = []


def run_group(cmd, env, timeout):
    """Run a simulator process in its own process group and make sure nothing of the group outlives it (forked copies,
    the zygote): a straggler would keep the pipes open."""
    import signal
    p = subprocess.Popen(cmd, stdout=subprocess.PIPE, stderr=subprocess.PIPE, text=True, errors="replace", env=env, start_new_session=True)
    try:
        out, err = p.communicate(timeout=timeout)
        rc = p.returncode
    except subprocess.TimeoutExpired:
        try:
            os.killpg(p.pid, signal.SIGKILL)
        except OSError:
            pass
        out, err = p.communicate()
        rc = -9
    finally:
        try:
            os.killpg(p.pid, signal.SIGKILL)
        except OSError:
            pass
    return out or "", err or "", rc


class _Done:
    def __init__(self, out, err, rc):
        self.stdout, self.stderr, self.returncode = out, err, rc


def run_cmd(cmd, timeout=1500):
    env = dict(os.environ, ASAN_OPTIONS="exitcode=77:detect_leaks=0:allocator_may_return_null=1")
    return _Done(*run_group(cmd, env, timeout))


def run_chunk(exe, variant, profile, seed, start, count, prop, agg_lock_free):
    """Run indices [start, start+count) of a batch; survive worker deaths by resuming after the dead run."""
    res = {"runs": [], "viols": [], "crashes": [], "states": set(), "trans": set(), "cells": set(), "faults": []}
    nxt = start
    end = start + count
    guard = 0
    while nxt < end and guard < count + 5:
        guard += 1
        cmd = (VALGRIND if "valgrind" in variant else []) + [exe, "--data", DATA, "--batch", "--seed", str(seed), "--profile", profile, "--start", str(nxt), "--count", str(end - nxt)]
        env = dict(os.environ)
        env["ASAN_OPTIONS"] = "exitcode=77:detect_leaks=0:allocator_may_return_null=1"
        out, err, rc = run_group(cmd, env, 1200)
        last_start = None
        ended = False
        crash_seen = False
        for line in out.split("\n"):
            if line.startswith("START "):
                last_start = parse_kv(line)
            elif line.startswith("RUN "):
                d = parse_kv(line)
                d["variant"], d["profile"] = variant, profile
                res["runs"].append(d)
                last_start = None
            elif line.startswith("VIOL "):
                d = parse_kv(line)
                d["variant"], d["profile"], d["batchseed"], d["wstart"] = variant, profile, seed, nxt
                d["sig"] = urllib.parse.unquote(d.get("sig", ""))
                d["msg"] = urllib.parse.unquote(d.get("msg", ""))
                res["viols"].append(d)
            elif line.startswith("CRASH "):
                d = parse_kv(line)
                d["variant"], d["profile"], d["batchseed"], d["wstart"] = variant, profile, seed, nxt
                d["idx"] = last_start["idx"] if last_start else "?"
                d["stderr_tail"] = err[-1500:]
                res["crashes"].append(d)
                crash_seen = True
            elif line.startswith("STATES"):
                res["states"].update(line.split()[1:])
            elif line.startswith("TRANS"):
                res["trans"].update(line.split()[1:])
            elif line.startswith("CELLS"):
                res["cells"].update(line.split()[1:])
            elif line.startswith("BATCH-END"):
                ended = True
        if ended and rc == 78 and "valgrind" in variant:
            # memcheck found a leak at exit (errors during the run end the process at once): one run per process,
            # so the finding belongs to that run
            d0 = res["runs"][-1] if res["runs"] else {"seed": "?", "idx": str(nxt)}
            res["crashes"].append({"kind": "valgrind", "sig": "78", "seed": d0.get("seed"), "step": "exit", "op": "LEAKCHECK", "owner": "C19", "variant": variant, "profile": profile,
                                   "batchseed": seed, "wstart": nxt, "idx": d0.get("idx"), "stderr_tail": err[-1500:]})
        if ended:
            break
        # the worker died: attribute and resume after the run that was executing
        if last_start is None:
            res["faults"].append("worker for %s/%s start=%d died (rc=%s) outside a run: %s" % (variant, profile, nxt, rc, err[-500:]))
            break
        if not crash_seen:
            # died without a CRASH line (UBSan report, stack overflow, SIGKILL): find the running step by executing the
            # same run alone with tracing -- the run is a pure function of its seed
            kind = "valgrind" if (rc == 78 and "valgrind" in variant) else "sanitizer" if rc == 77 else "signal"
            op, owner = trace_death(exe, seed, profile, last_start["idx"])
            if kind == "valgrind":
                owner = "C19" if owner == "C19" else owner + "+C19"
            res["crashes"].append({"kind": kind, "sig": str(-rc if rc < 0 else rc), "seed": last_start["seed"], "step": "?", "op": op, "owner": owner, "variant": variant,
                                   "profile": profile, "batchseed": seed, "wstart": nxt, "idx": last_start["idx"], "stderr_tail": err[-1500:]})
        nxt = int(last_start["idx"]) + 1
    return res


def trace_death(exe, seed, profile, idx):
    env = dict(os.environ, ASAN_OPTIONS="exitcode=77:detect_leaks=0:allocator_may_return_null=1")
    path = os.path.join(OUT, "replays", ".trace-%s-%s-%s-%d.plan" % (profile, seed, idx, os.getpid()))
    os.makedirs(os.path.dirname(path), exist_ok=True)
    op, owner = "?", "C19"
    try:
        sim_emit_plan(exe, seed, profile, idx, path)
        p = run_cmd([exe, "--data", DATA, "--replay", path, "--trace"], 300)
        for line in p.stdout.split("\n"):
            m = re.match(r"^step \d+ client=\S+ (\w+)", line)
            if m:
                op = m.group(1)
            m = re.match(r"^\s*\| OWNER (\S+)", line)
            if m:
                owner = m.group(1)
    except Exception:
        pass
    finally:
        if os.path.exists(path):
            os.remove(path)
    return op, owner


def sim_emit_plan(exe, seed, profile, idx, path, history_from=None):
    """Write the plan of run idx; with history_from also the plans of the runs the same worker executed before it."""
    first = int(idx) if history_from is None else int(history_from)
    with open(path, "w") as f:
        for i in range(first, int(idx) + 1):
            f.write(subprocess.run([exe, "--data", DATA, "--emit-plan", "--seed", str(seed), "--profile", profile, "--index", str(i)], stdout=subprocess.PIPE, text=True, errors="replace").stdout)


def wrap(variant, cmd):
    return (VALGRIND + cmd) if "valgrind" in variant else cmd


def minimise_with_fallback(exe, cands, planf, minf, extra):
    """Minimise the first candidate that reproduces: alone, else together with the sessions its worker ran before it."""
    last = None
    for v in cands[:4]:
        for hist in (None, v.get("wstart")):
            if hist is not None and int(hist) >= int(v["idx"]):
                continue
            sim_emit_plan(exe, v["batchseed"], v["profile"], v["idx"], planf, hist)
            vg = "valgrind" in v["variant"]
            r = run_cmd(wrap(v["variant"], [exe, "--data", DATA, "--minimise", planf] + extra + (["--budget", "40"] if vg else []) + ["--variant", v["variant"], "-o", minf]), 2400)
            if vg and os.path.exists(minf) and "MINIMISED" in r.stdout:
                r.returncode = 0  # the minimiser itself exits 78 under memcheck when its forked probes reported errors
            last = r
            if r.returncode == 0 and os.path.exists(minf):
                return v, r
    return None, last


def sim_replay(exe, path, variant=""):
    env = dict(os.environ)
    env["ASAN_OPTIONS"] = "exitcode=77:detect_leaks=0:allocator_may_return_null=1"
    p = run_cmd(wrap(variant, [exe, "--data", DATA, "--replay", path]), 900)
    run, viols, crash = None, [], None
    for line in p.stdout.split("\n"):
        if line.startswith("RUN "):
            run = parse_kv(line)
        elif line.startswith("VIOL "):
            d = parse_kv(line)
            d["sig"] = urllib.parse.unquote(d.get("sig", ""))
            viols.append(d)
        elif line.startswith("CRASH "):
            crash = parse_kv(line)
    return run, viols, crash, p.returncode, p.stderr


def load_known_findings():
    known, fixed = [], []
    p = os.environ.get("VERIF_KNOWN_FINDINGS", os.path.join(VERIF, "known_findings.txt"))  # override: self-test only
    if os.path.exists(p):
        for line in open(p):
            line = line.strip()
            if not line or line.startswith("#"):
                continue
            if line.startswith("fixed:"):
                fixed.append(line)
                continue
            if line.startswith("known:"):
                d = {}
                for tok in line[len("known:"):].split():
                    if "=" in tok:
                        k, v = tok.split("=", 1)
                        d[k] = urllib.parse.unquote(v)
                d["_text"] = line
                known.append(d)
    return known, fixed


def main():
    args = sys.argv[1:]
    if not args:
        raise SystemExit(__doc__)
    prop = args[0]
    tier = os.environ.get("VERIF_TIER", "quick")
    scale = float(os.environ.get("VERIF_SCALE", "1"))
    i = 1
    while i < len(args):
        if args[i] == "--tier":
            tier = args[i + 1]; i += 2
        elif args[i] == "--runs-scale":
            scale = float(args[i + 1]); i += 2
        else:
            raise SystemExit("unknown argument " + args[i])
    if prop not in CLAIMED:
        raise SystemExit("property %s is not decided by this framework (see MANIFEST.json not_applicable)" % prop)
    if tier not in ("quick", "thorough"):
        tier = "quick"
    try:
        seed = int(os.environ.get("VERIF_SEED", "20261002"))
    except ValueError:
        seed = 20261002
    t0 = time.time()
    sched = (SCHEDULE_C19 if prop == "C19" else SCHEDULE)[tier]
    def vkind(v):
        return "valgrind" if "valgrind" in v else "asan" if "asan" in v else "plain"
    sched = [(v, prop if p == "P" else p, max(CHUNK[vkind(v)], int(n * scale))) for v, p, n in sched]
    if prop == "C14":
        # catalogue integrity must not depend on assertions being compiled in (side effects inside assert())
        sched += [("exc.ndebug", "C14", 1000 if tier == "quick" else 60000)]
    if prop == "C12":
        # stratified sweep (enumeration, not simulation): every sequence of length <= 4 over
        # {INIT a, INIT b, SELECT a, SELECT b, SET, GET, re-INIT a}, both precisions, in both abort builds
        nenum = C12_ENUM if tier == "quick" else C12_ENUM_THOROUGH  # thorough: every sequence of length <= 6
        sched += [("exc.plain", "C12E", nenum), ("exit.plain", "C12E", nenum)]
    variants = sorted(set(v.replace("valgrind", "plain") for v, _, _ in sched))  # exc.ndebug is a variant of its own
    log("run_check: property=%s tier=%s seed=%d variants=%s" % (prop, tier, seed, ",".join(variants)))
    exes = {}
    try:
        # plain variants first (fast); sanitizer builds take about a minute each when not cached
        with ThreadPoolExecutor(max_workers=2) as ex:
            for v, e in zip(variants, ex.map(simbuild.build, variants)):
                exes[v] = e
    except SystemExit as e:
        log("run_check: HARNESS FAULT: the simulator could not be built from the current tree (exit 2)")
        sys.exit(2)
    tbuild = time.time() - t0

    # ---------------- run the batches
    tasks = []
    for si, (v, p, n) in enumerate(sched):
        chunk = CHUNK[vkind(v)]
        bseed = seed * 1000 + si  # every schedule entry explores its own seed range
        for s in range(0, n, chunk):
            tasks.append((exes[v.replace("valgrind", "plain")], v, p, bseed, s, min(chunk, n - s)))
    # slowest (valgrind, sanitizer) chunks first
    tasks.sort(key=lambda t: (0 if "valgrind" in t[1] else 1 if "asan" in t[1] else 2, t[4]))
    agg = Agg()
    trun0 = time.time()
    with ThreadPoolExecutor(max_workers=WORKERS) as ex:
        futs = [ex.submit(run_chunk, *t, prop, None) for t in tasks]
        for f in futs:
            r = f.result()
            for d in r["runs"]:
                agg.runs += 1
                agg.steps += int(d.get("steps", 0))
                agg.by_variant[d["variant"]] += 1
                agg.alloc_modes[d.get("alloc", "?")] += 1
                agg.sup += int(d.get("sup", 0))
                agg.unsup += int(d.get("unsup", 0))
                for k, v in parse_map(d.get("fired")).items():
                    agg.fired[k] += v
                for k, v in parse_map(d.get("ops")).items():
                    agg.ops[k] += v
                o = parse_map(d.get("orc"))
                for k, v in o.items():
                    agg.orc[k] += v
                agg.planhashes.add(d.get("planhash"))
                if o.get(prop, 0) > 0:
                    agg.planhashes_nontrivial.add(d.get("planhash"))
                agg.ileaves.add(d.get("ileave"))
            agg.viols += r["viols"]
            agg.crashes += r["crashes"]
            agg.states |= r["states"]
            agg.trans |= r["trans"]
            agg.cells |= r["cells"]
            agg.harness_faults += r["faults"]
    trun = time.time() - trun0

    # ---------------- classify
    known, fixed = load_known_findings()
    mine = [v for v in agg.viols if v["prop"] == prop]
    others = collections.Counter((v["prop"], v["oracle"]) for v in agg.viols if v["prop"] != prop)
    timeouts = [c for c in agg.crashes if c.get("kind") == "timeout"]
    crashes = [c for c in agg.crashes if c.get("kind") != "timeout"]
    # a crash is a verdict for the property that owns the step's post-condition, and for C19 when it is a memory error
    def crash_props(c):
        ps = set(c.get("owner", "C19").split("+"))
        if c.get("kind") in ("signal", "sanitizer", "valgrind"):
            ps.add("C19")
        return ps
    my_crashes = [c for c in crashes if prop in crash_props(c)]
    for (p_, o_), n in sorted(others.items()):
        log("NOTE: %d violation(s) of another property seen on the way: %s %s (decided by that property's own check)" % (n, p_, o_))
    for c in crashes:
        if prop not in crash_props(c):
            log("NOTE: worker crash attributed to %s (kind=%s op=%s), decided by that property's check" % (",".join(sorted(crash_props(c))), c.get("kind"), c.get("op")))

    # distinct violation classes, deterministic order
    classes = collections.OrderedDict()
    for v in sorted(mine, key=lambda v: (v["oracle"], v["sig"], v["variant"], int(v["idx"]))):
        classes.setdefault((v["oracle"], v["sig"]), []).append(v)
    crash_classes = collections.OrderedDict()
    for c in sorted(my_crashes, key=lambda c: (c.get("kind", ""), c.get("op", ""), c["variant"], str(c.get("idx")))):
        crash_classes.setdefault((c.get("kind", ""), prop if prop in c.get("owner", "").split("+") else "", c.get("op", "")), []).append(c)

    os.makedirs(os.path.join(OUT, "replays"), exist_ok=True)
    reported, known_hits, harness_fault, unreported = [], [], False, []

    def is_known(oracle, sig):
        for k in known:
            if k.get("property") == prop and k.get("oracle") == oracle and (k.get("sig", "") in ("", "*") or k.get("sig") == sig):
                return k
        return None

    MAXREP = 8

    def guarded(what, fn):
        """A failure of the reporting machinery is a harness fault (exit 2 unless a violation was reported), never a verdict."""
        nonlocal harness_fault
        try:
            fn()
        except Exception as e:  # noqa: BLE001
            import traceback
            log("run_check: HARNESS FAULT while reporting %s: %r" % (what, e))
            log("  " + traceback.format_exc().replace("\n", " | ")[-600:])
            harness_fault = True

    # the most frequent classes first (the robust signal is what gets minimised and shown); ties in name order
    for (oracle, sig), vs in sorted(classes.items(), key=lambda kv: (-len(kv[1]), kv[0])):
        def _one_class(oracle=oracle, sig=sig, vs=vs):
            nonlocal harness_fault
            k = is_known(oracle, sig)
            if k:
                known_hits.append((k, len(vs)))
                return
            v = vs[0]
            exe = exes[v["variant"].replace("valgrind", "plain")]
            base = os.path.join(OUT, "replays", "%s-%s-%d" % (prop, v["seed"], len(reported) + 1))
            planf, minf = base + ".full.plan", base + ".plan"
            if len(reported) >= MAXREP:  # many distinct classes: the first MAXREP are minimised and reported, the rest are counted
                unreported.append((oracle, sig, len(vs)))
                return
            same_variant = [x for x in vs if x["variant"] == v["variant"]]
            v2, r = minimise_with_fallback(exe, same_variant, planf, minf, ["--prop", prop, "--oracle", oracle, "--sig", urllib.parse.quote(sig, safe="")])
            if v2 is None:
                log("run_check: HARNESS FAULT: violation %s %s (seed %s, %s) did not reproduce in a fresh process, alone or with its worker's history: %s" % (oracle, sig, v["seed"], v["variant"], (r.stdout.strip()[-300:] if r else "")))
                harness_fault = True
                return
            v = v2
            hdr = dict(re.findall(r"^# (\w+)=(.*)$", open(minf).read(), re.M))
            ok = True
            for _ in range(2):  # replay gate: fresh process, twice, same violation and same event-log hash
                run, viols, crash, rc, err = sim_replay(exe, minf)
                hit = [x for x in viols if x["prop"] == prop and x["oracle"] == oracle and x["sig"] == sig]
                if not hit or run is None or run.get("loghash") != hdr.get("loghash"):
                    ok = False
            if not ok:
                log("run_check: HARNESS FAULT: minimised replay %s does not reproduce identically" % minf)
                harness_fault = True
                return
            if os.path.exists(planf):
                os.remove(planf)
            reported.append({"oracle": oracle, "sig": sig, "replay": minf, "count": len(vs), "msg": v["msg"], "variant": v["variant"], "steps_after": hdr.get("steps_after")})
        guarded("%s %s" % (oracle, sig), lambda: _one_class(oracle=oracle, sig=sig, vs=vs))
    for (kind, owner, op), cs in crash_classes.items():
        def _one_crash(kind=kind, owner=owner, op=op, cs=cs):
            nonlocal harness_fault
            oracle = "crash." + kind
            k = is_known(oracle, op)
            if k:
                known_hits.append((k, len(cs)))
                return
            c = cs[0]
            exe = exes[c["variant"].replace("valgrind", "plain")]
            base = os.path.join(OUT, "replays", "%s-%s-%d" % (prop, c["seed"], len(reported) + 1))
            planf, minf = base + ".full.plan", base + ".plan"
            if str(c.get("idx")) == "?":
                harness_fault = True
                return
            same_variant = [x for x in cs if x["variant"] == c["variant"] and str(x.get("idx")) != "?"]
            c2, r = minimise_with_fallback(exe, same_variant, planf, minf, ["--crash"] + (["--prop", owner] if owner else []) + ["--oracle", kind])
            if c2 is not None:
                c = c2
            if c2 is None:
                log("run_check: HARNESS FAULT: crash (%s, op %s, seed %s, %s) did not reproduce in a fresh process" % (kind, op, c["seed"], c["variant"]))
                harness_fault = True
                return
            ok = True
            for _ in range(2):
                run, viols, crash, rc, err = sim_replay(exe, minf, c["variant"])
                died = (crash is not None and crash.get("kind") == kind) or (crash is None and run is None and ((kind == "sanitizer" and rc == 77) or (kind == "signal" and rc < 0))) or (kind == "valgrind" and rc == 78)
                if not died:
                    ok = False
            if not ok:
                log("run_check: HARNESS FAULT: minimised crash replay %s does not reproduce" % minf)
                harness_fault = True
                return
            if os.path.exists(planf):
                os.remove(planf)
            reported.append({"oracle": oracle, "sig": op, "replay": minf, "count": len(cs), "msg": "worker died: kind=%s signal/code=%s while executing %s; %s" % (kind, c.get("sig"), op, (c.get("stderr_tail") or "")[-400:].replace("\n", " | ")),
                             "variant": c["variant"]})
        guarded("crash %s %s" % (kind, op), lambda: _one_crash(kind=kind, owner=owner, op=op, cs=cs))
    # ---------------- evidence
    wall = time.time() - t0
    samples = []
    try:
        for si, (v, p, n) in enumerate(sched[:2]):
            txt = subprocess.run([exes[v], "--data", DATA, "--emit-plan", "--seed", str(seed * 1000 + si), "--profile", p, "--index", "0"], stdout=subprocess.PIPE, text=True, errors="replace").stdout
            lines = txt.strip().split("\n")
            samples.append({"variant": v, "profile": p, "index": 0, "plan": lines[:6] + [re.sub(r" (u|len|val|x|b|cb|k)=\S+", "", l) for l in lines[6:46]] + (["... (%d more lines)" % (len(lines) - 46)] if len(lines) > 46 else [])})
    except Exception as e:  # evidence must not decide the verdict
        samples.append({"error": str(e)})
    if not samples:
        samples.append({"note": "no sample"})
    ev = {
        "property_id": prop, "tier": tier, "seed": seed, "level": "exploration",
        "coverage": {
            "evaluations": agg.runs,
            "distinct_nontrivial": len(agg.planhashes_nontrivial),
            "rule": "one evaluation = one simulated session (plan) generated from VERIF_SEED, executed on the real library; counted as non-trivial and distinct = distinct plan hash "
                    "in which at least one oracle tagged %s was actually evaluated (measured: per-run oracle-evaluation counters)" % prop,
            "samples": samples,
            "states": len(agg.states), "transitions": len(agg.trans),
            "state_measure": "abstract state = per registry the multiset of (solution, default|modified|purged|vector-resized) + solution of the selection + allocator mode; transition = (state, step kind)",
            "steps": agg.steps,
            "oracle_evaluations": dict(agg.orc),
            "oracle_evaluations_this_property": agg.orc.get(prop, 0),
            "distinct_plans": len(agg.planhashes),
            "distinct_interleavings": len(agg.ileaves),
            "solution_x_evaluator_x_precision_cells": len(agg.cells),
            "runs_by_variant": dict(agg.by_variant),
            "runs_by_allocator_mode": {{"0": "zero", "1": "recycle", "2": "garbage", "3": "poison"}.get(k, k): v for k, v in agg.alloc_modes.items()},
            "faults_fired": dict(agg.fired),
            "faults_not_injected": ["allocation failure (bad_alloc)", "stdout write errors", "clock/network/disk faults (no such component)", "real threads"],
            "step_kinds": dict(agg.ops),
            "evaluations_documented": agg.sup, "evaluations_undocumented": agg.unsup,
            "runs_per_hour": int(agg.runs / max(trun, 1e-6) * 3600), "seeds_per_hour": int(agg.runs / max(trun, 1e-6) * 3600),
            "simulated_time": "not applicable: MASA has no clock, timer or deadline; progress is counted in API steps",
            "worker_crashes": len(crashes), "timeouts_inconclusive": len(timeouts),
            "components": REAL_VS_STUB,
            "schedule": [{"variant": v, "profile": p, "runs": n} for v, p, n in sched],
            "stratified_enumeration": ({"what": "every call sequence of length <= %d over {INIT a, INIT b, SELECT a, SELECT b, SET, GET, re-INIT a with another solution} x {double, long double}, each followed by a full audit" % (4 if tier == "quick" else 6), "sequences": (C12_ENUM if tier == "quick" else C12_ENUM_THOROUGH), "executed_in": ["exc.plain", "exit.plain"], "exhaustive_for_this_alphabet": True} if prop == "C12" else None),
            "known_findings_hit": [k["_text"] for k, _ in known_hits],
            "violations_reported": [{"oracle": r["oracle"], "sig": r["sig"], "count": r["count"], "replay": r["replay"]} for r in reported],
            "build_s": round(tbuild, 1), "explore_s": round(trun, 1),
            "exhaustive": False,
        },
        "assumptions": [
            "data/catalogue.txt is a faithful transcription of the documented API at the pinned commit (names, dimensions, documented evaluator overloads)",
            "seeded search samples histories; a clean batch is evidence, not proof",
            "relational oracles cannot see an error that affects every instance identically (domain of the not-applicable properties C01-C09)",
        ],
        "wall_s": round(wall, 2),
        "violations": len(reported) + len(unreported),
    }
    os.makedirs(os.path.join(OUT, "evidence"), exist_ok=True)
    json.dump(ev, open(os.path.join(OUT, "evidence", prop + ".json"), "w"), indent=1, sort_keys=True)
    if tier == "thorough":  # kept next to the quick-tier file, which the next quick run rewrites
        json.dump(ev, open(os.path.join(OUT, "evidence", prop + ".thorough.json"), "w"), indent=1, sort_keys=True)

    # ---------------- verdict
    log("run_check: %d runs, %d steps, %d oracle evaluations for %s, %d states, %.1fs build + %.1fs explore" % (agg.runs, agg.steps, agg.orc.get(prop, 0), prop, len(agg.states), tbuild, trun))
    for k, n in known_hits:
        log("KNOWN-FINDING: %s (seen %d times)" % (k["_text"][len("known:"):].strip(), n))
    for f in agg.harness_faults:
        log("run_check: HARNESS FAULT: " + f)
        harness_fault = True
    if len(timeouts):
        log("run_check: %d run(s) hit the per-run watchdog (inconclusive, not a violation)" % len(timeouts))
    for r in reported:
        log("  %s %s x%d: %s" % (r["oracle"], r["sig"], r["count"], r["msg"][:300]))
        log("VIOLATION property=%s replay=%s" % (prop, r["replay"]))
    if unreported:
        log("run_check: %d further distinct (oracle, signature) classes of %s violations were seen and not minimised, e.g. %s" % (len(unreported), prop, "; ".join("%s %s x%d" % u for u in unreported[:5])))
    if agg.runs == 0:
        log("run_check: HARNESS FAULT: no run completed")
        sys.exit(2)
    if reported:
        sys.exit(1)
    if harness_fault:
        sys.exit(2)
    log("run_check: %s held on everything explored" % prop)
    sys.exit(0)


if __name__ == "__main__":
    main()
