#!/usr/bin/env python3
"""Build simulator variants from /repo's CURRENT working tree, cached by content hash (DESIGN.md section 2).

usage: build.py <variant> [<variant> ...]      prints "<variant> <path to sim>" per variant
variants: exit.plain exc.plain exit.asan exc.asan
Nothing is written under /repo or /tmp.  Exit status 2 = the simulator could not be built (harness fault or
a tree that does not compile), never 1.
"""
import hashlib, os, re, shutil, subprocess, sys, time
from concurrent.futures import ThreadPoolExecutor

VERIF = os.path.dirname(os.path.abspath(__file__))
REPO = os.environ.get("VERIF_REPO", "/repo")
SRC = os.path.join(REPO, "src")
BUILD = os.path.join(VERIF, "build")
SIMSRC = os.path.join(VERIF, "sim")
CXX = os.environ.get("VERIF_CXX", "g++")

VARIANTS = {
    "exit.plain": ["-O1"],
    "exc.plain": ["-O1", "-DMASA_EXCEPTIONS=1"],
    "exc.ndebug": ["-O2", "-DNDEBUG", "-DMASA_EXCEPTIONS=1"],  # what a release build of a host project compiles the sources with
    "exit.asan": ["-O1", "-g", "-fsanitize=address,undefined", "-fno-sanitize-recover=all", "-fno-omit-frame-pointer", "-D_GLIBCXX_SANITIZE_VECTOR=1"],
    "exc.asan": ["-O1", "-g", "-fsanitize=address,undefined", "-fno-sanitize-recover=all", "-fno-omit-frame-pointer", "-D_GLIBCXX_SANITIZE_VECTOR=1", "-DMASA_EXCEPTIONS=1"],
}
COMMON = ["-std=c++17", "-w", "-fno-builtin-malloc", "-pthread"]


def cc_sources():
    """The default configuration's source list, read from src/Makefile.am so that an added file is honoured."""
    am = open(os.path.join(SRC, "Makefile.am")).read()
    am = am.replace("\\\n", " ")
    files = []
    for m in re.finditer(r"^cc_sources\s*\+?=\s*(.*)$", am, re.M):
        files += m.group(1).split()
    files = [f for f in files if f.endswith(".cpp")]
    if "masa_core.cpp" not in files:
        raise SystemExit("build.py: masa_core.cpp is not in cc_sources any more")
    return files


def tree_hash(flags):
    h = hashlib.sha256()
    h.update(" ".join(flags + COMMON + [CXX]).encode())
    for d in (SRC, SIMSRC):
        for fn in sorted(os.listdir(d)):
            p = os.path.join(d, fn)
            if os.path.isfile(p) and re.search(r"\.(cpp|h|hpp|inc|in|am)$", fn) and fn != "masa.h":
                h.update(fn.encode())
                h.update(open(p, "rb").read())
    return h.hexdigest()[:16]


def gen_headers(inc):
    os.makedirs(inc, exist_ok=True)
    txt = open(os.path.join(SRC, "masa.h.in")).read()
    subst = {"GENERIC_MAJOR_VERSION": "0", "GENERIC_MINOR_VERSION": "51", "GENERIC_MICRO_VERSION": "1", "BUILD_USER": "sim", "BUILD_ARCH": "sim",
             "BUILD_HOST": "sim", "BUILD_DATE": "sim", "BUILD_VERSION": "sim", "VERSION": "0.51.1", "BUILD_DEVSTATUS": "sim", "CXX": "g++",
             "CXXFLAGS": "", "FC": "", "FCFLAGS": ""}
    txt = re.sub(r"@(\w+)@", lambda m: subst.get(m.group(1), ""), txt)
    open(os.path.join(inc, "masa.h"), "w").write(txt)
    open(os.path.join(inc, "config.h"), "w").write("/* simulator build: default configuration (no MetaPhysicL, no Fortran, no SWIG) */\n")


def build(variant):
    flags = VARIANTS[variant]
    hh = tree_hash(flags)
    out = os.path.join(BUILD, "%s-%s" % (variant, hh))
    exe = os.path.join(out, "sim")
    if os.path.exists(exe):
        os.utime(out, None)
        return exe
    # drop stale builds of this variant (disk is limited): keep the most recently used few, never touch a build
    # directory that another process may still be filling
    if os.path.isdir(BUILD):
        now = time.time()
        mine = []
        for d in os.listdir(BUILD):
            if not d.startswith(variant + "-") or d == os.path.basename(out):
                continue
            full = os.path.join(BUILD, d)
            try:
                age = now - os.path.getmtime(full)
            except OSError:
                continue
            if ".tmp" in d:
                if age > 3600:
                    shutil.rmtree(full, ignore_errors=True)
            else:
                mine.append((age, full))
        mine.sort()
        for age, full in mine[int(os.environ.get("VERIF_KEEP_BUILDS", "6")):]:
            if age < 3 * 3600:
                continue  # used recently: a check started by someone else may still be executing it
            shutil.rmtree(full, ignore_errors=True)
    tmp = out + ".tmp%d" % os.getpid()
    shutil.rmtree(tmp, ignore_errors=True)
    os.makedirs(tmp)
    inc = os.path.join(tmp, "inc")
    gen_headers(inc)
    incs = ["-I" + inc, "-I" + SRC, "-I" + SIMSRC]
    jobs = []
    for f in cc_sources():
        if f == "masa_core.cpp":
            continue  # replaced by sim/core_tu.cpp, which includes it verbatim
        jobs.append((os.path.join(SRC, f), os.path.join(tmp, "repo_" + f[:-4] + ".o")))
    for f in ("alloc.cpp", "core_tu.cpp", "sim_main.cpp"):
        jobs.append((os.path.join(SIMSRC, f), os.path.join(tmp, "sim_" + f[:-4] + ".o")))

    def cc(job):
        src, obj = job
        cmd = [CXX] + COMMON + flags + incs + ["-c", src, "-o", obj]
        r = subprocess.run(cmd, stdout=subprocess.PIPE, stderr=subprocess.STDOUT, text=True)
        return (src, r.returncode, r.stdout)

    t0 = time.time()
    with ThreadPoolExecutor(max_workers=int(os.environ.get("VERIF_JOBS", "16"))) as ex:
        res = list(ex.map(cc, jobs))
    bad = [r for r in res if r[1] != 0]
    if bad:
        for src, rc, outp in bad[:3]:
            sys.stderr.write("build.py: compiling %s failed:\n%s\n" % (src, outp[-3000:]))
        shutil.rmtree(tmp, ignore_errors=True)
        raise SystemExit(2)
    link = [CXX, "-pthread"] + flags + [o for _, o in jobs] + ["-o", os.path.join(tmp, "sim")]
    r = subprocess.run(link, stdout=subprocess.PIPE, stderr=subprocess.STDOUT, text=True)
    if r.returncode != 0:
        sys.stderr.write("build.py: link failed:\n%s\n" % r.stdout[-3000:])
        shutil.rmtree(tmp, ignore_errors=True)
        raise SystemExit(2)
    for _, o in jobs:
        os.remove(o)
    try:
        os.rename(tmp, out)
    except OSError:
        shutil.rmtree(tmp, ignore_errors=True)  # another process built the same thing meanwhile
    sys.stderr.write("build.py: built %s in %.1fs\n" % (variant, time.time() - t0))
    return exe


if __name__ == "__main__":
    vs = sys.argv[1:] or ["exit.plain"]
    for v in vs:
        if v not in VARIANTS:
            raise SystemExit("unknown variant " + v)
    for v in vs:
        print(v, build(v))
