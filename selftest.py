#!/usr/bin/env python3
"""Self-test of the simulator (DESIGN.md 4.4): determinism proof and sensitivity proof.

  selftest.py determinism [N]   every seed executed three times: inside a large batch, at another batch position
                                with another chunk size and worker count, and alone through emit-plan + replay in a
                                fresh process; event-log hashes must agree everywhere.  Default N = 2000 per variant.
  selftest.py sensitivity [ids] applies each seeded change seeded/<id>/patch.diff (written by independent sub-agents) to a
                                scratch copy of /repo/src (outside /repo and /verif), runs the quick check of the property
                                it breaks against the copy and requires a VIOLATION.
Results: evidence/selftest.json.  Exit 0 iff everything agreed.
"""
import json, os, re, shutil, subprocess, sys, tempfile, time
from concurrent.futures import ThreadPoolExecutor

VERIF = os.path.dirname(os.path.abspath(__file__))
sys.path.insert(0, VERIF)
import build as simbuild
DATA = os.path.join(VERIF, "data")


def batch(exe, seed, profile, start, count):
    env = dict(os.environ, ASAN_OPTIONS="exitcode=77:detect_leaks=0:allocator_may_return_null=1")
    p = subprocess.run([exe, "--data", DATA, "--batch", "--seed", str(seed), "--profile", profile, "--start", str(start), "--count", str(count)],
                       stdout=subprocess.PIPE, stderr=subprocess.DEVNULL, text=True, env=env)
    out = {}
    for line in p.stdout.split("\n"):
        if line.startswith("RUN "):
            d = dict(t.split("=", 1) for t in line.split()[1:] if "=" in t)
            out[int(d["idx"])] = (d["loghash"], d["planhash"], d["viol"])
    return out


def replay_one(exe, seed, profile, idx, tmpdir):
    path = os.path.join(tmpdir, "p_%s_%d.plan" % (profile, idx))
    txt = subprocess.run([exe, "--data", DATA, "--emit-plan", "--seed", str(seed), "--profile", profile, "--index", str(idx)], stdout=subprocess.PIPE, text=True).stdout
    open(path, "w").write(txt)
    env = dict(os.environ, ASAN_OPTIONS="exitcode=77:detect_leaks=0:allocator_may_return_null=1")
    p = subprocess.run([exe, "--data", DATA, "--replay", path], stdout=subprocess.PIPE, stderr=subprocess.DEVNULL, text=True, env=env)
    os.remove(path)
    for line in p.stdout.split("\n"):
        if line.startswith("RUN "):
            d = dict(t.split("=", 1) for t in line.split()[1:] if "=" in t)
            return (d["loghash"], d["planhash"], d["viol"])
    return None


def determinism(n):
    res = {"variants": {}, "ok": True}
    seed = int(os.environ.get("VERIF_SEED", "20261002")) * 7 + 1
    profiles = ["GEN", "C10", "C11", "C12", "C13", "C14", "C15", "C16", "C17", "C19"]
    tmpdir = tempfile.mkdtemp(prefix="simself", dir=os.path.join(VERIF, "build"))
    for variant in ["exc.plain", "exit.plain", "exc.asan", "exit.asan"]:
        exe = simbuild.build(variant)
        nn = n if "plain" in variant else max(100, n // 10)
        per = max(10, nn // len(profiles))
        mism, total, replayed = [], 0, 0
        t0 = time.time()
        for prof in profiles:
            # pass A: 16 workers, chunks of 100
            with ThreadPoolExecutor(16) as ex:
                a = {}
                for r in ex.map(lambda s: batch(exe, seed, prof, s, min(100, per - s)), range(0, per, 100)):
                    a.update(r)
            # pass B: 5 workers, chunks of 37, reversed order of submission (other batch positions, other processes)
            with ThreadPoolExecutor(5) as ex:
                b = {}
                for r in ex.map(lambda s: batch(exe, seed, prof, s, min(37, per - s)), reversed(range(0, per, 37))):
                    b.update(r)
            # pass C: a stratified sample alone, through the plan file, in a fresh process
            idxs = list(range(0, per, max(1, per // 12)))
            with ThreadPoolExecutor(16) as ex:
                c = dict(zip(idxs, ex.map(lambda i: replay_one(exe, seed, prof, i, tmpdir), idxs)))
            for i in range(per):
                total += 1
                if i not in a or i not in b or a[i] != b[i]:
                    mism.append((prof, i, a.get(i), b.get(i)))
            for i in idxs:
                replayed += 1
                if c[i] != a.get(i):
                    mism.append((prof, i, a.get(i), c[i], "replay"))
        res["variants"][variant] = {"seeds": total, "each_executed": "twice in batches (16x100 and 5x37 chunking) + %d also alone via plan file" % replayed,
                                    "mismatches": len(mism), "examples": mism[:5], "wall_s": round(time.time() - t0, 1)}
        if mism:
            res["ok"] = False
    shutil.rmtree(tmpdir, ignore_errors=True)
    return res


def sensitivity():
    """Every seeded change (seeded/<id>/patch.diff) must make the quick check of its property exit 1 with a VIOLATION
    line, except the ones listed in seeded/expected_misses.json with the reason why this technique cannot see them."""
    sys.path.insert(0, os.path.join(VERIF, "tools"))
    import seeded_matrix
    ids = [a for a in sys.argv[2:]] or sorted(x for x in os.listdir(seeded_matrix.SEEDED) if os.path.isdir(os.path.join(seeded_matrix.SEEDED, x)))
    expected = json.load(open(os.path.join(seeded_matrix.SEEDED, "expected_misses.json")))
    res = {"mutants": [], "ok": True}
    with ThreadPoolExecutor(int(os.environ.get("JOBS", "3"))) as ex:
        for sid, r in ex.map(seeded_matrix.one, ids):
            prop = sid.split("_")[0]
            caught = isinstance(r.get(prop), dict) and r[prop].get("caught")
            res["mutants"].append({"id": sid, "property": prop, "caught": bool(caught), "expected_miss": sid in expected})
            if not caught and sid not in expected:
                res["ok"] = False
            if caught and sid in expected:
                res["mutants"][-1]["note"] = "listed as an expected miss but caught"
    res["caught"] = sum(1 for m in res["mutants"] if m["caught"])
    res["total"] = len(res["mutants"])
    return res


if __name__ == "__main__":
    mode = sys.argv[1] if len(sys.argv) > 1 else "determinism"
    path = os.path.join(VERIF, "evidence", "selftest.json")
    cur = json.load(open(path)) if os.path.exists(path) else {}
    if mode == "determinism":
        cur["determinism"] = determinism(int(sys.argv[2]) if len(sys.argv) > 2 else 2000)
        ok = cur["determinism"]["ok"]
    else:
        cur["sensitivity"] = sensitivity()
        ok = cur["sensitivity"]["ok"]
    os.makedirs(os.path.dirname(path), exist_ok=True)
    json.dump(cur, open(path, "w"), indent=1, sort_keys=True)
    print(json.dumps(cur[mode], indent=1)[:6000])
    sys.exit(0 if ok else 1)
